import fcntl
import hashlib
import json
import os
import re
import shutil
import signal
import subprocess
import sys
import time

VERIF = os.path.dirname(os.path.dirname(os.path.abspath(__file__)))
HARNESS = os.path.join(VERIF, "harness")
WORK = os.path.join(VERIF, ".work")
REPO = os.environ.get("JBV_REPO", "/repo")
TARGET = "x86_64-unknown-linux-gnu"
KNOWN = os.path.join(VERIF, "KNOWN_FINDINGS.txt")

from props import PROPS  # noqa: E402


def log(msg):
    print(f"[check] {msg}", file=sys.stderr, flush=True)


def base_env():
    env = dict(os.environ)
    env["CARGO_NET_OFFLINE"] = "true"
    env["RUST_BACKTRACE"] = "0"
    env.pop("RUSTFLAGS", None)
    return env


# ------------------------------------------------------------------------------ builds

VARIANTS = {
    # name: (cargo args, extra env, binary path relative to target dir)
    "checked": (["build", "--profile", "checked", "--bins"], {}, "checked/{bin}"),
    "release": (["build", "--release", "--bins"], {}, "release/{bin}"),
    "asan": (
        ["build", "--profile", "checked", "--bins", "--target", TARGET],
        {"RUSTFLAGS": "-Zsanitizer=address -Cforce-frame-pointers=yes"},
        TARGET + "/checked/{bin}",
    ),
    "tsan": (
        ["build", "--profile", "checked", "--bins", "--target", TARGET, "-Zbuild-std"],
        {"RUSTFLAGS": "-Zsanitizer=thread -Cforce-frame-pointers=yes"},
        TARGET + "/checked/{bin}",
    ),
}


def repo_tag():
    return "" if REPO == "/repo" else "-" + hashlib.sha1(REPO.encode()).hexdigest()[:8]


# Set to a property id when the full harness no longer builds against the tree under
# observation (a change of its public API broke some *other* monitor) and the harness was
# rebuilt with that property's monitor alone.
ONLY = {"prop": None}


def only_args():
    return ["--no-default-features", "--features", ONLY["prop"].lower()] if ONLY["prop"] else []


def target_dir(variant):
    suffix = ("-only-" + ONLY["prop"].lower()) if ONLY["prop"] else ""
    return os.path.join(WORK, "target" + repo_tag(), variant + suffix)


def harness_dir():
    """The harness crate. When JBV_REPO points at another tree (scratch worktree experiments),
    a copy of the crate whose jbonsai dependency points there is used instead."""
    if REPO == "/repo":
        return HARNESS
    dst = os.path.join(WORK, "harness-src" + repo_tag())
    os.makedirs(dst, exist_ok=True)
    subprocess.run(["rsync", "-a", "--delete", "--exclude", "target", "--exclude", "Cargo.lock", HARNESS + "/", dst + "/"], check=True)
    ct = os.path.join(dst, "Cargo.toml")
    txt = open(ct).read().replace('path = "/repo"', f'path = "{REPO}"')
    open(ct, "w").write(txt)
    return dst


def build(variant):
    """Build the harness (and jbonsai from /repo's working tree). Returns (ok, text)."""
    os.makedirs(WORK, exist_ok=True)
    lock = open(os.path.join(WORK, f"build-{variant}{repo_tag()}.lock"), "w")
    fcntl.flock(lock, fcntl.LOCK_EX)
    try:
        # the harness pins /repo's lock file
        src = os.path.join(REPO, "Cargo.lock")
        hdir = harness_dir()
        dst = os.path.join(hdir, "Cargo.lock")
        if os.path.exists(src) and not os.path.exists(dst):
            shutil.copy(src, dst)
        if variant == "miri":
            return True, ""
        args, extra, _ = VARIANTS[variant]
        env = base_env()
        env.update(extra)
        env["CARGO_TARGET_DIR"] = target_dir(variant)
        t0 = time.time()
        p = subprocess.run(["cargo", "+nightly"] + args + only_args(), cwd=hdir, env=env, stdout=subprocess.PIPE, stderr=subprocess.STDOUT, text=True)
        log(f"build {variant}{' (only ' + ONLY['prop'] + ')' if ONLY['prop'] else ''}: exit {p.returncode} in {time.time() - t0:.1f}s")
        return p.returncode == 0, p.stdout
    finally:
        fcntl.flock(lock, fcntl.LOCK_UN)
        lock.close()


def binary(variant, name="jbv"):
    return os.path.join(target_dir(variant), VARIANTS[variant][2].format(bin=name))


# ------------------------------------------------------------------------------ shards


def run_shards(variant, prop, tier, seed, nshards, out_dir, extra_args, timeout_s, env_extra=None, shard_ids=None, wrapper=None):
    """Run the monitor sharded. Returns list of dicts {shard, rc, timed_out, json|None, log_tail}."""
    if os.path.isdir(out_dir):
        shutil.rmtree(out_dir)
    os.makedirs(out_dir)
    env = base_env()
    env.update(env_extra or {})
    procs = []
    ids = list(range(nshards)) if shard_ids is None else shard_ids
    for i in ids:
        if variant == "miri":
            cmd = miri_cmd() + ["--", prop]
        else:
            cmd = list(wrapper or []) + [binary(variant), prop]
        cmd += ["--tier", tier, "--seed", str(seed), "--shard", str(i), "--nshards", str(nshards), "--out", out_dir, "--repo", REPO] + extra_args
        penv = dict(env)
        for k2, v2 in list(penv.items()):
            if isinstance(v2, str) and "{shard}" in v2:
                penv[k2] = v2.replace("{shard}", str(i))
        if variant == "miri":
            penv["CARGO_TARGET_DIR"] = target_dir("miri")
        so = open(os.path.join(out_dir, f"shard-{i}.stdout"), "w")
        se = open(os.path.join(out_dir, f"shard-{i}.stderr"), "w")
        cwd = harness_dir() if variant == "miri" else VERIF
        p = subprocess.Popen(cmd, cwd=cwd, env=penv, stdout=so, stderr=se, start_new_session=True)
        procs.append((i, p, so, se))
    deadline = time.time() + timeout_s
    results = []
    for i, p, so, se in procs:
        timed_out = False
        try:
            p.wait(timeout=max(1, deadline - time.time()))
        except subprocess.TimeoutExpired:
            timed_out = True
            try:
                os.killpg(p.pid, signal.SIGKILL)
            except ProcessLookupError:
                pass
            p.wait()
        so.close()
        se.close()
        jpath = os.path.join(out_dir, f"shard-{i}.json")
        j = None
        if os.path.exists(jpath):
            try:
                j = json.load(open(jpath))
            except Exception:
                j = None
        results.append({"shard": i, "rc": p.returncode, "timed_out": timed_out, "json": j, "out_dir": out_dir})
    return results


def last_begin(out_dir, shard):
    """The case a dead shard was in: last BEGIN without END in its event log."""
    path = os.path.join(out_dir, f"shard-{shard}.log")
    cur = None
    try:
        for line in open(path, errors="replace"):
            parts = line.split()
            if len(parts) >= 3 and parts[0] == "BEGIN":
                cur = (parts[1], int(parts[2]))
            elif len(parts) >= 3 and parts[0] == "END":
                cur = None
    except FileNotFoundError:
        pass
    return cur


def tail(path, n=30):
    try:
        lines = open(path, errors="replace").read().splitlines()
        return "\n".join(lines[-n:])
    except FileNotFoundError:
        return ""


def miri_cmd():
    return ["cargo", "+nightly", "miri", "run", "--profile", "checked", "--bin", "jbv"] + only_args()


# ------------------------------------------------------------------------------ findings


def load_known():
    known = []
    if os.path.exists(KNOWN):
        for line in open(KNOWN):
            line = line.rstrip("\n")
            m = re.match(r"KNOWN-FINDING: property=(\S+) sig=\[(.*?)\] (.*)$", line)
            if m:
                known.append({"property": m.group(1), "sig": m.group(2), "text": m.group(3), "line": line})
    return known


# ------------------------------------------------------------------------------ merging


def merge(results):
    agg = {
        "evaluations": 0,
        "nontrivial": set(),
        "samples": [],
        "counters": {},
        "maxima": {},
        "sets": {},
        "violations": [],
        "inconclusive": [],
        "exhaustive_subs": set(),
    }
    for r in results:
        j = r["json"]
        if not j:
            continue
        agg["evaluations"] += j["evaluations"]
        agg["nontrivial"].update(j["nontrivial"])
        agg["samples"].extend(j["samples"])
        for k, v in j["counters"].items():
            agg["counters"][k] = agg["counters"].get(k, 0) + v
        for k, v in j["maxima"].items():
            if isinstance(v, str):
                v = float(v)
            if k not in agg["maxima"] or v > agg["maxima"][k] or v != v:
                agg["maxima"][k] = v
        for k, v in j["sets"].items():
            agg["sets"].setdefault(k, set()).update(v)
        agg["violations"].extend(j["violations"])
        agg["inconclusive"].extend(j["inconclusive"])
        agg["exhaustive_subs"].update(j.get("exhaustive_subs", []))
    return agg


# ------------------------------------------------------------------------------ stages


def run_stage(prop, tier, seed, stage, nshards_default):
    """One stage = one build variant + monitor arguments. Returns dict with agg + problems."""
    variant = stage["variant"]
    name = stage.get("name", variant)
    res = {"name": name, "variant": variant, "violations": [], "inconclusive": [], "agg": None, "wall_s": 0.0, "notes": []}
    t0 = time.time()
    ok, text = build(variant if variant != "miri" else "miri")
    if not ok and ONLY["prop"] is None and not (prop == "C03" and re.search(r"E0277", text)):
        # the full harness does not build against this tree: try this property's monitor alone
        ONLY["prop"] = prop
        first = next((l for l in text.splitlines() if l.startswith("error")), "")
        ok2, text2 = build(variant)
        if ok2:
            ok, text = ok2, text2
            res["notes"].append(f"the full harness no longer builds against this tree ({first[:160]}); rebuilt with the {prop} monitor alone")
        else:
            ONLY["prop"] = None
    if not ok:
        # loss of Send/Sync is the one build failure that is a verdict (C03)
        if prop == "C03" and re.search(r"E0277.*\n?.*(cannot be (sent|shared) between threads|`Send`|`Sync`)", text):
            res["violations"].append({"sig": "engine-not-send-sync", "sub": "static", "idx": 0, "seed": seed, "detail": {"compiler": text[-3000:]}, "variant": variant})
        else:
            res["inconclusive"].append(f"build failed for variant {variant}: " + text[-1500:])
        res["wall_s"] = time.time() - t0
        return res
    # canary: the sanitizer / interpreter must report a deliberately broken snippet
    if stage.get("canary"):
        c_ok, note = run_canary(variant, stage["canary"], stage.get("wrapper"))
        res["notes"].append(note)
        if not c_ok:
            res["inconclusive"].append(f"layer {name}: canary not reported ({note})")
            res["wall_s"] = time.time() - t0
            return res
    nshards = stage.get("shards", nshards_default)
    out_dir = os.path.join(WORK, "logs" + repo_tag(), prop, name)
    timeout_s = stage.get("timeout_s", 1800 if tier == "quick" else 4 * 3600)
    env_extra = dict(stage.get("env", {}))
    results = run_shards(variant, prop, tier, seed, nshards, out_dir, stage.get("args", []), timeout_s, env_extra, wrapper=stage.get("wrapper"))
    died = [r for r in results if r["json"] is None]
    # a shard that died: identify the case from the BEGIN/END log, re-run it alone to classify
    # the death, then resume the shard after that case so that no other case is lost
    for r0 in died:
        r = r0
        cur_dir = out_dir
        restarts = 0
        while r["json"] is None:
            case = last_begin(cur_dir, r["shard"])
            err_tail = tail(os.path.join(cur_dir, f"shard-{r['shard']}.stderr"))
            if case is None:
                res["inconclusive"].append(f"{name}: shard {r['shard']} ended (rc={r['rc']}, timeout={r['timed_out']}) outside any case: {err_tail[-400:]}")
                break
            sub, idx = case
            solo_dir = os.path.join(WORK, "logs" + repo_tag(), prop, name + f"-solo-{r['shard']}-{restarts}")
            solo_timeout = timeout_s if not r["timed_out"] else timeout_s * 4
            suspected_hang = r["timed_out"] or r["rc"] == 124
            if suspected_hang and any(v["sig"] == "hang" for v in res["violations"]):
                # a hang has already been confirmed alone in this stage: further trips of the
                # in-process watchdog are recorded directly and the shard is resumed
                res["violations"].append({"sig": "hang", "sub": sub, "idx": idx, "seed": seed, "variant": variant, "detail": {"what": "case exceeded the in-process watchdog (an earlier one was confirmed alone)", "rc": r["rc"]}})
                # the verdict of this stage is already "violated": what is left of this shard
                # is not explored (said in the notes; the evidence counts only what ran)
                res["notes"].append(f"shard {r['shard']}: case {sub}/{idx} hung as well; its remaining cases were not run (a hang is already confirmed)")
                break
            solo_env = env_extra
            if suspected_hang:
                # a suspected hang is confirmed alone with a 10x larger per-case limit
                solo_env = dict(env_extra, JBV_WATCHDOG_S=str(10 * int(env_extra.get("JBV_WATCHDOG_S", "60"))))
            solo = run_shards(variant, prop, tier, seed, 1, solo_dir, stage.get("args", []) + ["--replay", sub, str(idx)], solo_timeout, solo_env, shard_ids=[0], wrapper=stage.get("wrapper"))[0]
            solo_tail = tail(os.path.join(solo_dir, "shard-0.stderr"), 60)
            if solo["json"] is not None:
                # did not reproduce alone: keep its findings, flag the shard loss as inconclusive
                results.append(solo)
                if suspected_hang:
                    # a slow case, not a hang: it ran to the end alone (its findings are kept) and
                    # the shard is resumed after it, so nothing is lost
                    res["notes"].append(f"{name}: case {sub}/{idx} exceeded the per-case CPU limit inside shard {r['shard']} and was evaluated alone with the tenfold limit")
                else:
                    res["inconclusive"].append(f"{name}: shard {r['shard']} died in case {sub}/{idx} (rc={r['rc']}, timeout={r['timed_out']}) but the case passes alone")
            else:
                kind = classify_death(solo, solo_tail, variant)
                if kind is None or not stage.get("death_is_violation", False):
                    res["inconclusive"].append(f"{name}: case {sub}/{idx} kills the shard (rc={solo['rc']}, timeout={solo['timed_out']}): {solo_tail[-600:]}")
                else:
                    res["violations"].append({"sig": kind, "sub": sub, "idx": idx, "seed": seed, "variant": variant, "detail": {"what": "the process running this case was terminated", "rc": solo["rc"], "timed_out": solo["timed_out"], "stderr_tail": solo_tail[-3000:]}})
            restarts += 1
            if restarts > 40:
                res["inconclusive"].append(f"{name}: shard {r['shard']} restarted {restarts} times; giving up on its remaining cases")
                break
            cur_dir = os.path.join(WORK, "logs" + repo_tag(), prop, name + f"-resume-{r['shard']}-{restarts}")
            r = run_shards(variant, prop, tier, seed, nshards, cur_dir, stage.get("args", []) + ["--resume-after", sub, str(idx)], timeout_s, env_extra, shard_ids=[r["shard"]], wrapper=stage.get("wrapper"))[0]
            if r["json"] is not None:
                results.append(r)
        res["notes"].append(f"shard {r0['shard']} was restarted {restarts} time(s)")
    agg = merge(results)
    for v in agg["violations"]:
        v["variant"] = variant
    res["violations"].extend(agg["violations"])
    res["inconclusive"].extend(agg["inconclusive"])
    res["agg"] = agg
    res["wall_s"] = time.time() - t0
    return res


def classify_death(solo, stderr_tail, variant):
    if solo["timed_out"] or solo["rc"] == 124 or "WATCHDOG: case" in stderr_tail:
        return "hang"
    if "AddressSanitizer" in stderr_tail:
        m = re.search(r"AddressSanitizer: (\S+)", stderr_tail)
        return "asan:" + (m.group(1) if m else "report")
    if "Invalid read" in stderr_tail or "Invalid write" in stderr_tail or "uninitialised value" in stderr_tail:
        return "memcheck:error"
    if "ThreadSanitizer" in stderr_tail:
        return "tsan:data-race"
    if "Undefined Behavior" in stderr_tail or "error: Undefined" in stderr_tail:
        return "miri:undefined-behavior"
    if "memory allocation of" in stderr_tail:
        return "abort:allocation-failure"
    if "stack overflow" in stderr_tail:
        return "abort:stack-overflow"
    rc = solo["rc"]
    if rc is not None and rc < 0:
        return f"abort:signal-{-rc}"
    if rc not in (0, None):
        return f"abort:exit-{rc}"
    return None


def run_canary(variant, mode, wrapper=None):
    env = base_env()
    if variant == "miri":
        cmd = ["cargo", "+nightly", "miri", "run", "--profile", "checked", "--bin", "canary"] + only_args() + ["--", mode]
        env["MIRIFLAGS"] = "-Zmiri-disable-isolation"
        env["CARGO_TARGET_DIR"] = target_dir("miri")
        cwd = harness_dir()
    else:
        cmd = list(wrapper or []) + [binary(variant, "canary"), mode]
        cwd = VERIF
    if variant == "asan":
        env["ASAN_OPTIONS"] = "halt_on_error=1:abort_on_error=0:detect_leaks=0"
    if variant == "tsan":
        env["TSAN_OPTIONS"] = "halt_on_error=1"
    try:
        p = subprocess.run(cmd, cwd=cwd, env=env, stdout=subprocess.PIPE, stderr=subprocess.STDOUT, text=True, timeout=900)
    except subprocess.TimeoutExpired:
        return False, "canary timed out"
    text = p.stdout
    marks = {"asan": "AddressSanitizer", "tsan": "ThreadSanitizer", "miri": "Undefined Behavior"}
    mark = "Invalid read" if wrapper and "valgrind" in wrapper[0] else marks.get(variant, "")
    ok = p.returncode != 0 and mark in text
    return ok, f"canary[{variant}/{mode}] rc={p.returncode} reported={'yes' if mark in text else 'no'}"


# ------------------------------------------------------------------------------ main


def write_replay(prop, v, tier):
    d = os.path.join(VERIF, "replays", prop)
    os.makedirs(d, exist_ok=True)
    body = {"property": prop, "tier": tier, "variant": v.get("variant", "checked"), "seed": v.get("seed", 1), "sub": v["sub"], "idx": v["idx"], "sig": v["sig"], "detail": v.get("detail")}
    h = hashlib.sha1(json.dumps([prop, v["sig"], v["sub"], v["idx"], body["seed"], body["variant"]]).encode()).hexdigest()[:12]
    path = os.path.join(d, f"{h}.json")
    json.dump(body, open(path, "w"), indent=1)
    return path


def do_replay(path):
    body = json.load(open(path))
    prop = body["property"]
    variant = body.get("variant", "checked")
    ok, text = build(variant)
    if not ok:
        # as in run_stage: this property's monitor alone
        ONLY["prop"] = prop
        ok, text = build(variant)
    if not ok:
        print(f"INCONCLUSIVE property={prop} reason=build")
        print(text[-2000:])
        return 3
    stage = None
    for st in PROPS[prop]["stages"].get(body.get("tier", "quick"), []) + PROPS[prop]["stages"].get("thorough", []):
        if st["variant"] == variant:
            stage = st
            break
    args = (stage or {}).get("args", [])
    env_extra = (stage or {}).get("env", {})
    out_dir = os.path.join(WORK, "logs" + repo_tag(), prop, "replay")
    r = run_shards(variant, prop, body.get("tier", "quick"), body["seed"], 1, out_dir, args + ["--replay", body["sub"], str(body["idx"]), "-v"], 4 * 3600, env_extra, shard_ids=[0])[0]
    print(open(os.path.join(out_dir, "shard-0.stdout")).read()[-6000:])
    print(tail(os.path.join(out_dir, "shard-0.stderr"), 80))
    if r["json"] is None:
        print(f"VIOLATION property={prop} replay={path}  (case terminates the process: rc={r['rc']} timeout={r['timed_out']})")
        return 1
    sigs = [v["sig"] for v in r["json"]["violations"]]
    if sigs:
        print(f"VIOLATION property={prop} replay={path}  reproduced: {sorted(set(sigs))}")
        return 1
    print(f"replay of {path}: no violation reproduced")
    return 0


def main(argv):
    if not argv or argv[0] in ("-h", "--help"):
        print(__doc__ or "usage: ./check Cxx [--tier quick|thorough] [--seed N] [--replay FILE]")
        return 2
    prop = argv[0]
    tier = os.environ.get("VERIF_TIER", "quick")
    seed = int(os.environ.get("VERIF_SEED", "1"))
    nshards = int(os.environ.get("VERIF_SHARDS", str(min(16, os.cpu_count() or 4))))
    replay = None
    tier_from_cli = None
    i = 1
    while i < len(argv):
        if argv[i] == "--tier":
            tier_from_cli = argv[i + 1]
            i += 1
        elif argv[i] == "--seed":
            seed = int(argv[i + 1])
            i += 1
        elif argv[i] == "--shards":
            nshards = int(argv[i + 1])
            i += 1
        elif argv[i] == "--replay":
            replay = argv[i + 1]
            i += 1
        else:
            print(f"unknown argument {argv[i]}")
            return 2
        i += 1
    if "VERIF_TIER" not in os.environ and tier_from_cli:
        tier = tier_from_cli
    if tier not in ("quick", "thorough"):
        tier = "quick"
    if replay:
        return do_replay(replay)
    if prop not in PROPS:
        print(f"unknown property {prop}")
        return 2
    cfg = PROPS[prop]
    t0 = time.time()
    stages = cfg["stages"][tier]
    stage_results = []
    for st in stages:
        log(f"{prop} {tier}: stage {st.get('name', st['variant'])}")
        stage_results.append(run_stage(prop, tier, seed, st, nshards))

    known = [k for k in load_known() if k["property"] == prop]
    violations, known_hits, inconclusive = [], {}, []
    for sr in stage_results:
        for v in sr["violations"]:
            hit = next((k for k in known if k["sig"] == v["sig"]), None)
            if hit:
                known_hits.setdefault(hit["line"], 0)
                known_hits[hit["line"]] += 1
            else:
                violations.append(v)
        inconclusive.extend(sr["inconclusive"])

    # ---- evidence
    main_agg = stage_results[0]["agg"] or merge([])
    total_eval = sum((sr["agg"] or {"evaluations": 0})["evaluations"] for sr in stage_results)
    nontrivial = set()
    for sr in stage_results:
        if sr["agg"]:
            nontrivial.update(sr["agg"]["nontrivial"])
    samples = main_agg["samples"][:8]
    coverage = {
        "evaluations": total_eval,
        "distinct_nontrivial": len(nontrivial),
        "rule": cfg["rule"],
        "samples": samples,
        "counters": {k: v for k, v in sorted(main_agg["counters"].items())},
        "maxima": {k: v for k, v in sorted(main_agg["maxima"].items())},
        "sets": {k: sorted(v)[:40] + ([f"...({len(v)} total)"] if len(v) > 40 else []) for k, v in sorted(main_agg["sets"].items())},
        "set_sizes": {k: len(v) for k, v in sorted(main_agg["sets"].items())},
        "exhaustively_enumerated_subspaces": sorted(main_agg["exhaustive_subs"]),
        "layers": [
            {
                "name": sr["name"],
                "variant": sr["variant"],
                "evaluations": (sr["agg"] or {"evaluations": 0})["evaluations"],
                "distinct_nontrivial": len((sr["agg"] or {"nontrivial": []})["nontrivial"]),
                "violations": len(sr["violations"]),
                "inconclusive": sr["inconclusive"][:5],
                "notes": sr["notes"],
                "counters": (sr["agg"] or {"counters": {}})["counters"] if sr is not stage_results[0] else "see coverage.counters",
                "wall_s": round(sr["wall_s"], 1),
            }
            for sr in stage_results
        ],
        "known_findings_seen": known_hits,
        "unlisted_violation_signatures": sorted({v["sig"] for v in violations}),
        "inconclusive": inconclusive[:10],
        "shards": nshards,
    }
    if cfg.get("exhaustive_part"):
        coverage["exhaustive"] = False
        coverage["exhaustive_note"] = cfg["exhaustive_part"]
    evidence = {
        "property_id": prop,
        "tier": tier,
        "seed": seed,
        "level": cfg["level"],
        "coverage": coverage,
        "assumptions": cfg["assumptions"],
        "wall_s": round(time.time() - t0, 2),
        "violations": len(violations),
    }
    os.makedirs(os.path.join(VERIF, "evidence"), exist_ok=True)
    json.dump(evidence, open(os.path.join(VERIF, "evidence", f"{prop}.json"), "w"), indent=1, default=str)

    # ---- verdict
    for line in known_hits:
        print(line)
    summary = f"{prop} {tier} seed={seed}: evaluations={total_eval} distinct_nontrivial={len(nontrivial)} violations={len(violations)} known={sum(known_hits.values())} inconclusive={len(inconclusive)} wall={time.time() - t0:.1f}s"
    print(summary)
    if violations:
        seen = set()
        for v in violations:
            key = (v["sig"], v.get("variant"))
            if key in seen:
                continue
            seen.add(key)
            path = write_replay(prop, v, tier)
            print(f"VIOLATION property={prop} replay={path} sig=[{v['sig']}] variant={v.get('variant')} sub={v['sub']} idx={v['idx']}")
        return 1
    if inconclusive:
        for m in inconclusive[:10]:
            print(f"INCONCLUSIVE property={prop} reason={m[:500]}")
        return 3
    if len(nontrivial) < 2 or total_eval < 1:
        print(f"INCONCLUSIVE property={prop} reason=too few non-trivial cases observed ({len(nontrivial)})")
        return 3
    return 0
