"""Per-property configuration of the orchestrator (stages, evidence texts)."""

ASAN_ENV = {"JBV_WATCHDOG_S": "600", "ASAN_OPTIONS": "halt_on_error=1:abort_on_error=1:detect_leaks=1:allocator_may_return_null=1:max_allocation_size_mb=4096"}
TSAN_ENV = {"JBV_WATCHDOG_S": "900", "TSAN_OPTIONS": "halt_on_error=1:second_deadlock_stack=1"}
MIRI_ENV = {"MIRIFLAGS": "-Zmiri-disable-isolation"}


def st(variant, name=None, **kw):
    d = {"variant": variant, "name": name or variant}
    d.update(kw)
    return d


COMMON_ASSUME = [
    "default cargo features only (the simd feature does not compile on the installed nightly)",
    "harness built against /repo's working tree with the verif-hooks feature; hooks are read-only",
    "oracle code under /verif/harness (reference reader, wildcard matcher, dense solver, DFT) is trusted; disagreements between two references are reported as inconclusive",
]

PROPS = {}


def prop(pid, level, rule, stages_quick, stages_thorough, assumptions=None, exhaustive_part=None):
    PROPS[pid] = {
        "level": level,
        "rule": rule,
        "stages": {"quick": stages_quick, "thorough": stages_thorough},
        "assumptions": COMMON_ASSUME + (assumptions or []),
        "exhaustive_part": exhaustive_part,
    }


prop(
    "C01",
    "exploration",
    "cases = (voice: bundled | PDF-perturbed copy | generated voice over the full {2,3 streams}x{stage 0..3}x{1..7 states}x{4 window sets} grid | random generated) x (utterance: corpus window / shuffle / field-recombination / breath group; structurally random labels for the no-panic part) x (random point or corner of the condition envelope, incl. alignment with random time annotations, whose frame counts are checked against the exact-integer alignment law on the annotation itself; with alignment on and no time on any label the model's own durations are expected whatever the speed); "
    "one utterance in four with F = 1 mod 4 is also pulled out of a generator (1..3 frames stepped, the rest by generate_all): no panic, frame-exact length; non-trivial = at least one voiced frame and more frames than states; distinct by hash(voice description, condition, label text)",
    [st("checked", death_is_violation=True)],
    [st("checked", death_is_violation=True), st("release", death_is_violation=True), st("asan", name="asan", args=["--sub", "synthetic", "--scale", "0.03"], env=ASAN_ENV, canary="asan", death_is_violation=True)],
    ["spectral stable range evaluated on 64 warped frequencies from the hooked trajectory (after the postfilter law)"],
)

VOC_ASSUME = ["pulse response measured in periodic steady state (F0 = 20 Hz, frame = one period); its DFT equals H at the harmonics exactly", "cases that have not reached steady state within the frame cap are counted and skipped, never judged"]

prop(
    "C06",
    "exploration",
    "cases = random mel-cepstra (4 decay profiles, order 2..40, scaled to a spectral-shape magnitude in (0,2] nepers) x alpha in {0, 1e-6, 1e-3 .. 9.9e-3, 0.6} U [0,0.6] x sampling rates (6 common ones and random multiples of 20 in 8k..96k); gain corners c0 = 0 and b0 = c0 - alpha b1 = 0 exactly; gain c0 in [-20,12] in a third of the cases; one case in sixteen a long tail of tiny same-sign terms (0.0004..0.0017 each, order 30..41) alone or under one dominant first-order term; measured on 65 or 257 harmonics in steady state AND on the response to the very first pulse (first frame); plus the exp(c0) gain law over steps of up to +-12 nepers; non-trivial = shape >= 0.5 neper and order >= 3; distinct by (order, alpha bucket, rate)",
    [st("checked")],
    [st("checked"), st("release")],
    VOC_ASSUME,
)
prop(
    "C13",
    "exploration",
    "cases = random increasing LSP sets (order 2..24, every gap incl. to 0 and pi >= 1.001*pi/(4(m+1)), clustered and spread) x stage 1..4 x alpha x linear/log gain x 6 rates, compared with K/|A(e^{j w~})|^s built by polynomial multiplication, on harmonics within 100 dB of the peak, in steady state and on the first-frame response; almost equally spaced sets (perturbation 3e-5..1e-3 rad); gains down to e^-28 in both conventions; plus one fixed listed extreme set; non-trivial = model dynamic range >= 1 neper; distinct by (order, stage, alpha bucket, gain kind, rate)",
    [st("checked")],
    [st("checked"), st("release")],
    VOC_ASSUME + ["diverging responses are classified by the model's dynamic range per cascaded section (beyond 28 nepers they carry the listed known-finding signature)"],
)
prop(
    "C14",
    "exploration",
    "cases = cepstra as C06 x beta in (0,0.5] x alpha x rates, order 3..40 (+ order 2 no-op, beta=0 identity); the measured log spectrum with beta must equal sum_{m>=1} c'_m cos(m w~) + const with c'_1=c_1, c'_m=(1+beta)c_m, the least-squares recovered cepstrum must agree, and the response energy must stay within 1 % when >= 99.99 % of it lies in 576 taps; with a constant spectrum and random V/UV switches the output stays that of one LTI filter; on a spectrum that moves every frame Vocoder(beta) on c_t equals Vocoder(0) on the postfiltered cepstrum computed from the definition (<= 1e-5 of the peak); end to end, the engine renders with the beta that was set (one case in five sets it on the Condition before load_model); non-trivial = energy law checked and the postfilter changed the response by > 1e-3; distinct by (order, alpha, beta bucket, rate)",
    [st("checked")],
    [st("checked"), st("release")],
    VOC_ASSUME,
)

prop(
    "C02",
    "exploration",
    "histories over {step(fp), step(2fp), step(3fp-1), frames-produced query, finish}: EVERY history up to length 5 (quick) / 7 (thorough) on generators of 0..5 frames (tiny generated voice, one frame per label) is enumerated; random long histories (buffer sizes in [fp,3fp], finish at a random cut incl. 0, F and past the end) on the bundled and generated voices under random conditions; with phoneme alignment on, lines (fully stamped with one label shorter than its states, partly stamped, or without times at a speed other than 1) handed to synthesize() and generator() alike; each is checked against a sequential cursor model over the one-shot waveform; non-trivial = a step followed by a finish at 0<k<F, or >= 2 distinct buffer sizes; distinct by (voice, F, history)",
    [st("checked", death_is_violation=True)],
    [st("checked", death_is_violation=True), st("release", death_is_violation=True), st("asan", name="asan", args=["--sub", "random", "--scale", "0.05"], env=ASAN_ENV, canary="asan", death_is_violation=True)],
    ["buffer contents beyond the first fperiod samples are not constrained (the statement does not say)"],
    exhaustive_part="the sub-space 'exhaustive' (all histories up to the length bound on 0..5-frame generators) is enumerated completely; the random sub-space is sampled",
)
prop(
    "C05",
    "exploration",
    "cases = random streams (1..60 states, durations 1..8, vector length 1..4, variances in [0.05,3], 6 voicing-pattern classes incl. all-unvoiced and 1-2 frame islands at the edges, one MSD case in nine with a third of the voicing weights exactly equal to the threshold (unvoiced: 'exceeds' is strict), 10 window sets incl. width-5, zero-centre and zero-ended rows, widest window not last; one case in eight with the static window zero-padded to width 3 or 5) through the public MlpgAdjust with gv=None; every voiced island x vector index is checked against the dense normal equations of the definition (relative residual <= 1e-10 and agreement with Gaussian elimination <= 1e-8); non-trivial = island of >= 3 frames with >= 1 active dynamic row; distinct by (window set, pattern class, vector length, island-length profile)",
    [st("checked")],
    [st("checked"), st("release")],
)
prop(
    "C07",
    "exploration",
    "runs through the public Vocoder with an all-zero spectrum (identity filter): constant F0 (20 Hz..rate/2, integer and fractional periods), F0 limits, unvoiced noise statistics (mean, variance, lag-1 correlation; deterministic generator), random F0 walks with V/UV switches (pulse height and gap laws of a linear period glide), a creep of 1e-9..3e-7 per frame over 1500..12000 frames followed by a held value (pulse height, gaps and average period of the held stretch), mixed excitation with random odd low-pass rows 1..31 reconstructed from the separately observed pulse train and noise sequence; 6 rates, frame periods 40..480; non-trivial = >= 10 pulses measured or >= 1 V/UV switch with a low-pass row",
    [st("checked")],
    [st("checked"), st("release")],
)
prop(
    "C08",
    "exploration",
    "cases = duration-model sequences (1..200 states, means 0.2..60, variances 1e-3..400, identical Gaussians for equal-cost ties, x.5 means) x 13+ speeds in [0.1,50] incl. 1+-1e-9 and ratios that land on x.5 targets, through the public DurationEstimator; plus end-to-end utterances of the bundled voice (hooked durations and waveform length) against the law computed from the file by the independent reader; non-trivial = round(F1/s) > states and s != 1",
    [st("checked")],
    [st("checked"), st("release")],
    ["a target within 1e-7 of x.5 accepts both neighbouring totals"],
)

prop(
    "C04",
    "exploration",
    "voices = the bundled voice (every corpus line in the thorough tier, a slice in quick, plus field-recombined labels) and generated voices over {1..7 states, 2/3 streams, vector lengths, 9 window sets, trees in ascending or descending state order, -0.0 means, ALPHA also outside [0,1], tree depth 0..4 incl. single-leaf trees and trees in which two branches name the same PDF (which may name any PDF of a table that holds more PDFs than the tree uses), 10 window sets also with zero-padded static windows, GAMMA / LN_GAIN spelled out or left out for the mel-cepstral filter in every option order, quoted/unquoted/mixed leaf names, questions sampled from the bundled voice's 783 questions incl. the 3 regex-fallback ones forced at the root}; for every (label, state, model in duration/streams/GV) the Gaussians returned by the public Model API must be bit-equal to the float32 entries selected by the independent reader's tree walk with the wildcard matcher; header fields, options, window coefficients and engine defaults compared exactly; non-trivial = a lookup that traverses >= 2 internal nodes with >= 1 'yes'; distinct by (voice, model, tree, leaf)",
    [st("checked")],
    [st("checked"), st("asan", name="asan", args=["--sub", "synthetic", "--scale", "0.25"], env=ASAN_ENV, canary="asan", death_is_violation=True)],
    ["gamma stage and log-gain flag of the engine are read from Condition's Debug output (no public getter)", "generator ground truth and independent reader are cross-checked for every generated voice"],
)
prop(
    "C09",
    "exploration",
    "annotations: EVERY presence pattern of {start,end} per label for 1..4 (quick) / 1..5 (thorough) labels x 5 time shapes (monotone, shuffled, zero-length, fractional/.5-frame, huge gaps) at the estimator level through Labels::new + DurationEstimator::create_with_alignment; random longer ones; Labels::load_from_strings unit/inheritance check; end-to-end utterances of the bundled voice (hooked durations, waveform length) with frame-period and rate overrides; oracle = exact integer arithmetic on the raw 100 ns annotation; non-trivial = >= 1 inherited end and >= 1 group spanning >= 2 labels",
    [st("checked", death_is_violation=True)],
    [st("checked", death_is_violation=True), st("release", death_is_violation=True)],
    ["a known end within 1e-9 of a .5-frame tie accepts both roundings"],
    exhaustive_part="the sub-space 'presence-exhaustive' is enumerated completely; everything else is sampled",
)
prop(
    "C10",
    "exploration",
    "voice sets of 1..4: bundled + PDF-perturbed copies, identical copies, generated voices with equal metadata but different trees (also the same voice object listed twice in a row, and a copy of the first voice that carries another voice's duration model); after the valid set_duration a rejected one (one weight too many, sum still 1) follows, which must change nothing; dyadic weight vectors (k/64, exact sum 1) on the simplex, vertices, and with negative / over-unity components, set independently for duration, each stream and each GV; every duration / stream / GV Gaussian from the public Models API compared with the weighted average of the per-voice Gaussians within 8 eps * sum|terms|; vertex weights: parameters and waveform bit-equal to the first voice; interior weights end to end: the engine's hooked trajectories equal the public building blocks run on the weighted model (<= 1e-9) and its durations those of the weighted duration model, also when every stream's parameter weights are one vertex while duration and GV weights are interior; each generated voice of a set lists its trees in its own order; non-trivial = >= 2 voices whose selected Gaussians differ and a non-vertex weight",
    [st("checked")],
    [st("checked"), st("release")],
)
prop(
    "C11",
    "exploration",
    "per utterance a grid of ~15 thresholds on stream 1 incl. 0, 1, exact voicing weights of the utterance's states and their neighbours one ulp away; voices: bundled, PDF-perturbed, generated (voicing weights spread over (0,1) incl. exactly 0.5); hooked log-F0 trajectory must be voiced exactly where weight > threshold (weights from the independent reader), raising the threshold never voices a frame, other streams' trajectories stay bit-equal when one stream's threshold or GV weight changes; transparent generated voices: unvoiced frames reproduce the reference noise sequence bit for bit, voiced frames contain pulses only; non-trivial = >= 1 frame flips over the threshold grid (or both kinds of frame for transparent voices)",
    [st("checked")],
    [st("checked"), st("release")],
)
prop(
    "C12",
    "exploration",
    "utterances of 10..60 corpus labels (consecutive / shuffled) on the bundled voice and perturbed copies x GV weights {0.25,0.5,1,2} + one random weight, both GV streams; eligibility computed with the harness' wildcard matcher on the file's GV_OFF_CONTEXT; variance ratio in [0.8,1.2] per coefficient when >= 100 frames are eligible, strictly increasing over the weight grid; two and three voices with scaled GV means and convex, zero-containing and extrapolating GV interpolation weights; copies of the bundled voice with other GV-off context lists (a voiced phoneme among them, fewer, none); silence-only utterances: trajectory equals the gv=None solution; stream without GV bit-equal for any GV weight, also for copies of the bundled voice whose header switches USE_GV off while the GV data is still in the file; non-trivial = >= 100 eligible frames in a GV stream",
    [st("checked")],
    [st("checked"), st("release")],
)
prop(
    "C15",
    "exploration",
    "h in [-24,24] (integers, fractions, +-0, corners) x random conditions (GV on) x utterances, on the bundled voice, perturbed copies and generated voices (one case in five sets h on the Condition before load_model); hooked trajectories at h vs 0: same durations and V/UV mask, spectrum and low-pass bit-equal, log-F0 shifted by h*ln2/12 within 1e-9 at every voiced frame unless a voiced state's mean reaches the 20 Hz / 20 kHz limit (then only the isolation clauses); a workload that sets the log-F0 GV weight so that the variance target lies within 1e-8..1e-3 of the contour's own variance measures the listed finding there (step-size control decided by rounding, bound 1e-4) and reports anything larger; h = 0 bit-equal incl. the waveform; plus the state-level law through the public StreamParameter::apply_additional_half_tone (mean' = limit(mean + h ln2/12, ln 20, ln 20000), other components untouched) on bundled-voice and synthetic states near both limits; non-trivial = h != 0 with >= 1 voiced frame under the shift law",
    [st("checked")],
    [st("checked"), st("release")],
    ["utterances whose voiced log-F0 trajectory is numerically constant while GV is on are not judged by the shift law (GV only rescales rounding noise there)"],
)
prop(
    "C16",
    "exploration",
    "v in [-60,60] dB (0, +-6.0206, corners, random) x random conditions x utterances on bundled and generated voices (both filter families, 2 and 3 streams): every sample at v dB equals 10^(v/20) times the 0 dB sample within 32 eps, equal length, no other setting changes, get_volume returns v within 1e-12; for v != 0 the same law on the waveform pulled from generator() all at once, frame by frame, or a few frames and then the rest; every second step buffer is 3 samples longer than the frame and holds live values there, which must come out the same as from a generator at 0 dB stepped alongside; non-trivial = v != 0 and a non-silent waveform",
    [st("checked")],
    [st("checked"), st("release")],
    ["samples that are non-finite at 0 dB (outside the stable range, see C01) are not compared"],
)
prop(
    "C17",
    "exploration",
    "forms: &[&str], &[String], Vec<String>, &[String; N] (N in 1..8), with blank lines, with 100 ns time stamps and float-spelled times (1e400, inf, NaN, -1) while alignment is off, also blank-line-first + stamped and alternating stamped/plain lines, all compared bit-for-bit with the parsed-label form; time-stamped strings with alignment ON and frame periods that do not divide the rate and one label in five shorter than its states, judged by C09's exact alignment law; corruptions of corpus lines (21 kinds, incl. trailing whitespace, a byte order mark in front of an entry the ideographic space U+3000 where a separator is expected, and line terminators inside an entry: chunk deletion/duplication, symbol substitution, unicode insertion, truncation, extra spaces, one time only, two times without label, unparsable times, trailing token, 10k characters, random ASCII, long multi-byte text with 0/1/2 spaces and ASCII prefixes of every length) must give Ok or Err, never a panic; non-trivial = form comparison done / corruption rejected by jlabel's parser",
    [st("checked", death_is_violation=True)],
    [st("checked", death_is_violation=True), st("asan", name="asan", args=["--sub", "corruptions", "--scale", "0.1"], env=ASAN_ENV, canary="asan", death_is_violation=True)],
)
prop(
    "C19",
    "exploration",
    "metadata: 15 single-field mutations (rate, frame period, states, streams, stream type, format/version strings, GV-off context, vector length, window count, MSD flag, GV flag, option, last stream only) x 6 list shapes (pairs and triples with the odd one in every position, quadruple) on in-memory copies of the bundled and generated voices - enumerated; empty list; differing stream count. Weights: every history up to length 3 over a 7-update alphabet (valid, wrong length, bad sum, NaN, negative) on a 2-voice engine - enumerated; random histories of 1..12 updates on 1..4-voice engines against a reference state machine (getter and next waveform after every update, final comparison with a fresh engine given the effective weights); non-trivial = history with >= 1 accepted and >= 1 rejected update, or a metadata case",
    [st("checked")],
    [st("checked"), st("release")],
    ["sums with 0 < |sum-1| < 1e-6 may be accepted or rejected; the model follows the reported outcome"],
    exhaustive_part="the sub-spaces 'metadata' and 'weights-exhaustive' are enumerated completely; 'weights-random' is sampled",
)
prop(
    "C20",
    "exploration",
    "random call orders (1..40 calls, the interpolation-weight accessor called in between after one per-stream setter in three) over every setter with arguments from {0, -0.0, +-subnormal, +-1e-300, +-1e300, 0.5, 1, 1+-ulp, 1e-6+-ulp, usize::MAX, random magnitudes} and every stream index in range, on the bundled voice and generated 2/3-stream voices; after every call all getters are compared with a reference Condition model and the volume getter must not move; fresh engines compared with the documented defaults and the header; distinct by call sequence",
    [st("checked")],
    [st("checked"), st("release")],
)

prop(
    "C18",
    "fault_enumeration",
    "single faults enumerated per valid file: truncation at every header/data section boundary +-{0,1,2} and at random offsets; every decimal number of the header replaced by {0,1,v+1,v-1,99999999999,2^64,2^128,-5,abc,empty}; range endpoints swapped; every header line deleted / duplicated; keys renamed, colon removed, value emptied; section tags damaged; every header quote removed / replaced, a quote inserted before every key and value; odd and non-UTF-8 bytes in the header; tree bodies blanked in place; byte substitutions in the data part; 37 structural faults of every tree/question text section and 7 of every window section of generated voices (unknown question, deleted/renamed QS, child redirected to a missing node or back to the root, duplicate node id, node numbered far away (-2e7..-9e18), leaf without / with zero / huge / overflowing number, missing braces, bad state index, re-quoting, bad pattern characters, empty pattern list, swapped / extra / missing tokens, non-UTF-8, NUL, CRLF, single-node tree pointing at a node, empty section); sampled double faults; random garbage. Files: generated voices (all faults) and the bundled voice (thinned in the quick tier). Observed per fault: Ok / Err class / panic site, peak heap and largest request from a counting allocator, process death. non-trivial = outcome differs from the clean file; distinct by (fault class, section, outcome)",
    [st("checked", death_is_violation=True, env={"JBV_WATCHDOG_S": "20"})],
    [st("checked", death_is_violation=True, env={"JBV_WATCHDOG_S": "20"}), st("release", death_is_violation=True, env={"JBV_WATCHDOG_S": "20"}), st("asan", name="asan", args=["--sub", "generated", "--scale", "0.1"], env=dict(ASAN_ENV, JBV_NO_RLIMIT="1"), canary="asan", death_is_violation=True),
     st("miri", name="miri", args=[], env={"MIRIFLAGS": "-Zmiri-disable-isolation -Zmiri-deterministic-floats", "JBV_MIRI": "1", "JBV_WATCHDOG_S": "7200"}, canary="miri", death_is_violation=True, shards=8, timeout_s=3 * 3600),
     st("release", name="memcheck", args=["--sub", "generated", "--scale", "0.05"], env={"JBV_NO_RLIMIT": "1", "JBV_WATCHDOG_S": "1800"}, wrapper=["valgrind", "--error-exitcode=99", "-q", "--leak-check=no"], canary="asan", death_is_violation=True)],
    ["RLIMIT_AS 4 GiB per shard; heap bound 64 x file size + 16 MiB measured by a counting global allocator in the harness", "a case that kills or hangs its process is re-run alone before it is reported"],
)

prop(
    "C03",
    "exploration",
    "(1) sequential programs over {synthesize(u), clone().synthesize(u), open/step/finish/drop live generators, read all getters} on one engine, every output compared bit-for-bit with the same (voice file, condition values, labels) synthesized on a freshly loaded engine; (2) pairs of engines driven to the same final condition through different setter histories (junk, out-of-range values, rejected weight updates first); (3) k in {2,4,8,16} threads sharing one &Engine, random programs over 6 utterances with randomised delays between calls, every call logged {thread, op, utterance, t_call, t_return, hash} and compared with the single-threaded fresh-engine hash; the concurrent workload repeated under ThreadSanitizer (std rebuilt) and, in the thorough tier, a tiny-voice variant with a regex-fallback question under Miri with different scheduler seeds; (4) a setting changed while a generator for the same utterance is alive: the next synthesis equals a fresh engine given the final settings and the live generator finishes under the settings it was opened with; compile-time Send+Sync assertion. non-trivial = a call that overlapped another call on the same engine (distinct overlap signatures), or a sequential program interleaving >= 2 utterances with a live generator",
    [
        st("checked", env={"JBV_WATCHDOG_S": "300"}),
        st("tsan", name="tsan", args=["--sub", "concurrent", "--scale", "0.5"], env=TSAN_ENV, canary="tsan", death_is_violation=True, shards=8),
    ],
    [
        st("checked", env={"JBV_WATCHDOG_S": "300"}),
        st("release", env={"JBV_WATCHDOG_S": "300"}),
        st("tsan", name="tsan", args=["--sub", "concurrent", "--scale", "0.25"], env=TSAN_ENV, canary="tsan", death_is_violation=True, shards=8),
        st("miri", name="miri", args=[], env={"MIRIFLAGS": "-Zmiri-disable-isolation -Zmiri-deterministic-floats -Zmiri-seed={shard}", "JBV_MIRI": "1", "JBV_WATCHDOG_S": "7200"}, canary="miri", death_is_violation=True, shards=4, timeout_s=3 * 3600),
    ],
    ["TSan only understands synchronisation it intercepts; std is rebuilt with -Zbuild-std so the regex cache pool's primitives are instrumented", "Miri runs a tiny generated voice (1 state, 3 coefficients, frame period 4), not the bundled one"],
)
