"""Per-property configuration of the orchestrator (stages, evidence texts)."""

ASAN_ENV = {"ASAN_OPTIONS": "halt_on_error=1:abort_on_error=1:detect_leaks=1:allocator_may_return_null=1:max_allocation_size_mb=4096"}
TSAN_ENV = {"TSAN_OPTIONS": "halt_on_error=1:second_deadlock_stack=1"}
MIRI_ENV = {"MIRIFLAGS": "-Zmiri-disable-isolation"}


def st(variant, name=None, **kw):
    d = {"variant": variant, "name": name or variant}
    d.update(kw)
    return d


COMMON_ASSUME = [
    "default cargo features only (the simd feature does not compile on the installed nightly)",
    "harness built against /repo's working tree with the verif-hooks feature; hooks are read-only",
    "oracle code under /verif/harness (reference reader, wildcard matcher, dense solver, DFT) is trusted; disagreements between two references are reported as inconclusive",
]

PROPS = {}


def prop(pid, level, rule, stages_quick, stages_thorough, assumptions=None, exhaustive_part=None):
    PROPS[pid] = {
        "level": level,
        "rule": rule,
        "stages": {"quick": stages_quick, "thorough": stages_thorough},
        "assumptions": COMMON_ASSUME + (assumptions or []),
        "exhaustive_part": exhaustive_part,
    }


prop(
    "C01",
    "exploration",
    "cases = (voice: bundled | PDF-perturbed copy | generated voice over the full {2,3 streams}x{stage 0..3}x{1..7 states}x{4 window sets} grid | random generated) x (utterance: corpus window / shuffle / field-recombination / breath group; structurally random labels for the no-panic part) x (random point or corner of the condition envelope, incl. alignment with random time annotations); "
    "non-trivial = at least one voiced frame and more frames than states; distinct by hash(voice description, condition, label text)",
    [st("checked", death_is_violation=True)],
    [st("checked", death_is_violation=True), st("release", death_is_violation=True)],
    ["spectral stable range evaluated on 64 warped frequencies from the hooked trajectory (after the postfilter law)"],
)

VOC_ASSUME = ["pulse response measured in periodic steady state (F0 = 20 Hz, frame = one period); its DFT equals H at the harmonics exactly", "cases that have not reached steady state within the frame cap are counted and skipped, never judged"]

prop(
    "C06",
    "exploration",
    "cases = random mel-cepstra (4 decay profiles, order 2..40, scaled to a spectral-shape magnitude in (0,2] nepers) x alpha in {0} U [0,0.6] x 6 sampling rates; measured on 65 or 257 harmonics; plus the exp(c0) gain law; non-trivial = shape >= 0.5 neper and order >= 3; distinct by (order, alpha bucket, rate)",
    [st("checked")],
    [st("checked"), st("release")],
    VOC_ASSUME,
)
prop(
    "C13",
    "exploration",
    "cases = random increasing LSP sets (order 2..24, every gap incl. to 0 and pi >= 1.001*pi/(4(m+1)), clustered and spread) x stage 1..4 x alpha x linear/log gain x 6 rates, compared with K/|A(e^{j w~})|^s built by polynomial multiplication, on harmonics within 100 dB of the peak; plus one fixed listed extreme set; non-trivial = model dynamic range >= 1 neper; distinct by (order, stage, alpha bucket, gain kind, rate)",
    [st("checked")],
    [st("checked"), st("release")],
    VOC_ASSUME + ["diverging responses are classified by the model's dynamic range (beyond e^74 = (2^53)^2 they carry the listed known-finding signature)"],
)
prop(
    "C14",
    "exploration",
    "cases = cepstra as C06 x beta in (0,0.5] x alpha x rates, order 3..40 (+ order 2 no-op, beta=0 identity); the measured log spectrum with beta must equal sum_{m>=1} c'_m cos(m w~) + const with c'_1=c_1, c'_m=(1+beta)c_m, the least-squares recovered cepstrum must agree, and the response energy must stay within 1 % when >= 99.99 % of it lies in 576 taps; non-trivial = energy law checked and the postfilter changed the response by > 1e-3; distinct by (order, alpha, beta bucket, rate)",
    [st("checked")],
    [st("checked"), st("release")],
    VOC_ASSUME,
)

prop(
    "C02",
    "exploration",
    "histories over {step(fp), step(2fp), step(3fp-1), frames-produced query, finish}: EVERY history up to length 5 (quick) / 7 (thorough) on generators of 0..5 frames (tiny generated voice, one frame per label) is enumerated; random long histories (buffer sizes in [fp,3fp], finish at a random cut incl. 0, F and past the end) on the bundled and generated voices under random conditions; each is checked against a sequential cursor model over the one-shot waveform; non-trivial = a step followed by a finish at 0<k<F, or >= 2 distinct buffer sizes; distinct by (voice, F, history)",
    [st("checked", death_is_violation=True)],
    [st("checked", death_is_violation=True), st("release", death_is_violation=True)],
    ["buffer contents beyond the first fperiod samples are not constrained (the statement does not say)"],
    exhaustive_part="the sub-space 'exhaustive' (all histories up to the length bound on 0..5-frame generators) is enumerated completely; the random sub-space is sampled",
)
prop(
    "C05",
    "exploration",
    "cases = random streams (1..60 states, durations 1..8, vector length 1..4, variances in [0.05,3], 6 voicing-pattern classes incl. all-unvoiced and 1-2 frame islands at the edges, 5 window sets incl. width-5) through the public MlpgAdjust with gv=None; every voiced island x vector index is checked against the dense normal equations of the definition (relative residual <= 1e-10 and agreement with Gaussian elimination <= 1e-8); non-trivial = island of >= 3 frames with >= 1 active dynamic row; distinct by (window set, pattern class, vector length, island-length profile)",
    [st("checked")],
    [st("checked"), st("release")],
)
prop(
    "C07",
    "exploration",
    "runs through the public Vocoder with an all-zero spectrum (identity filter): constant F0 (20 Hz..rate/2, integer and fractional periods), F0 limits, unvoiced noise statistics (mean, variance, lag-1 correlation; deterministic generator), random F0 walks with V/UV switches (pulse height and gap laws of a linear period glide), mixed excitation with random odd low-pass rows 1..31 reconstructed from the separately observed pulse train and noise sequence; 6 rates, frame periods 40..480; non-trivial = >= 10 pulses measured or >= 1 V/UV switch with a low-pass row",
    [st("checked")],
    [st("checked"), st("release")],
)
prop(
    "C08",
    "exploration",
    "cases = duration-model sequences (1..200 states, means 0.2..60, variances 1e-3..400, identical Gaussians for equal-cost ties, x.5 means) x 13+ speeds in [0.1,50] incl. 1+-1e-9 and ratios that land on x.5 targets, through the public DurationEstimator; plus end-to-end utterances of the bundled voice (hooked durations and waveform length) against the law computed from the file by the independent reader; non-trivial = round(F1/s) > states and s != 1",
    [st("checked")],
    [st("checked"), st("release")],
    ["a target within 1e-7 of x.5 accepts both neighbouring totals"],
)
