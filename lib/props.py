"""Per-property configuration of the orchestrator (stages, evidence texts)."""

ASAN_ENV = {"ASAN_OPTIONS": "halt_on_error=1:abort_on_error=1:detect_leaks=1:allocator_may_return_null=1:max_allocation_size_mb=4096"}
TSAN_ENV = {"TSAN_OPTIONS": "halt_on_error=1:second_deadlock_stack=1"}
MIRI_ENV = {"MIRIFLAGS": "-Zmiri-disable-isolation"}


def st(variant, name=None, **kw):
    d = {"variant": variant, "name": name or variant}
    d.update(kw)
    return d


COMMON_ASSUME = [
    "default cargo features only (the simd feature does not compile on the installed nightly)",
    "harness built against /repo's working tree with the verif-hooks feature; hooks are read-only",
    "oracle code under /verif/harness (reference reader, wildcard matcher, dense solver, DFT) is trusted; disagreements between two references are reported as inconclusive",
]

PROPS = {}


def prop(pid, level, rule, stages_quick, stages_thorough, assumptions=None, exhaustive_part=None):
    PROPS[pid] = {
        "level": level,
        "rule": rule,
        "stages": {"quick": stages_quick, "thorough": stages_thorough},
        "assumptions": COMMON_ASSUME + (assumptions or []),
        "exhaustive_part": exhaustive_part,
    }


prop(
    "C01",
    "exploration",
    "cases = (voice: bundled | PDF-perturbed copy | generated voice over the full {2,3 streams}x{stage 0..3}x{1..7 states}x{4 window sets} grid | random generated) x (utterance: corpus window / shuffle / field-recombination / breath group; structurally random labels for the no-panic part) x (random point or corner of the condition envelope, incl. alignment with random time annotations); "
    "non-trivial = at least one voiced frame and more frames than states; distinct by hash(voice description, condition, label text)",
    [st("checked", death_is_violation=True)],
    [st("checked", death_is_violation=True), st("release", death_is_violation=True)],
    ["spectral stable range evaluated on 64 warped frequencies from the hooked trajectory (after the postfilter law)"],
)
