"""Per-property configuration of the orchestrator (stages, evidence texts)."""

ASAN_ENV = {"ASAN_OPTIONS": "halt_on_error=1:abort_on_error=1:detect_leaks=1:allocator_may_return_null=1:max_allocation_size_mb=4096"}
TSAN_ENV = {"TSAN_OPTIONS": "halt_on_error=1:second_deadlock_stack=1"}
MIRI_ENV = {"MIRIFLAGS": "-Zmiri-disable-isolation"}


def st(variant, name=None, **kw):
    d = {"variant": variant, "name": name or variant}
    d.update(kw)
    return d


COMMON_ASSUME = [
    "default cargo features only (the simd feature does not compile on the installed nightly)",
    "harness built against /repo's working tree with the verif-hooks feature; hooks are read-only",
    "oracle code under /verif/harness (reference reader, wildcard matcher, dense solver, DFT) is trusted; disagreements between two references are reported as inconclusive",
]

PROPS = {}


def prop(pid, level, rule, stages_quick, stages_thorough, assumptions=None, exhaustive_part=None):
    PROPS[pid] = {
        "level": level,
        "rule": rule,
        "stages": {"quick": stages_quick, "thorough": stages_thorough},
        "assumptions": COMMON_ASSUME + (assumptions or []),
        "exhaustive_part": exhaustive_part,
    }


prop(
    "C01",
    "exploration",
    "cases = (voice: bundled | PDF-perturbed copy | generated voice over the full {2,3 streams}x{stage 0..3}x{1..7 states}x{4 window sets} grid | random generated) x (utterance: corpus window / shuffle / field-recombination / breath group; structurally random labels for the no-panic part) x (random point or corner of the condition envelope, incl. alignment with random time annotations); "
    "non-trivial = at least one voiced frame and more frames than states; distinct by hash(voice description, condition, label text)",
    [st("checked", death_is_violation=True)],
    [st("checked", death_is_violation=True), st("release", death_is_violation=True)],
    ["spectral stable range evaluated on 64 warped frequencies from the hooked trajectory (after the postfilter law)"],
)

VOC_ASSUME = ["pulse response measured in periodic steady state (F0 = 20 Hz, frame = one period); its DFT equals H at the harmonics exactly", "cases that have not reached steady state within the frame cap are counted and skipped, never judged"]

prop(
    "C06",
    "exploration",
    "cases = random mel-cepstra (4 decay profiles, order 2..40, scaled to a spectral-shape magnitude in (0,2] nepers) x alpha in {0} U [0,0.6] x 6 sampling rates; measured on 65 or 257 harmonics; plus the exp(c0) gain law; non-trivial = shape >= 0.5 neper and order >= 3; distinct by (order, alpha bucket, rate)",
    [st("checked")],
    [st("checked"), st("release")],
    VOC_ASSUME,
)
prop(
    "C13",
    "exploration",
    "cases = random increasing LSP sets (order 2..24, every gap incl. to 0 and pi >= 1.001*pi/(4(m+1)), clustered and spread) x stage 1..4 x alpha x linear/log gain x 6 rates, compared with K/|A(e^{j w~})|^s built by polynomial multiplication, on harmonics within 100 dB of the peak; plus one fixed listed extreme set; non-trivial = model dynamic range >= 1 neper; distinct by (order, stage, alpha bucket, gain kind, rate)",
    [st("checked")],
    [st("checked"), st("release")],
    VOC_ASSUME + ["diverging responses are classified by the model's dynamic range (beyond e^74 = (2^53)^2 they carry the listed known-finding signature)"],
)
prop(
    "C14",
    "exploration",
    "cases = cepstra as C06 x beta in (0,0.5] x alpha x rates, order 3..40 (+ order 2 no-op, beta=0 identity); the measured log spectrum with beta must equal sum_{m>=1} c'_m cos(m w~) + const with c'_1=c_1, c'_m=(1+beta)c_m, the least-squares recovered cepstrum must agree, and the response energy must stay within 1 % when >= 99.99 % of it lies in 576 taps; non-trivial = energy law checked and the postfilter changed the response by > 1e-3; distinct by (order, alpha, beta bucket, rate)",
    [st("checked")],
    [st("checked"), st("release")],
    VOC_ASSUME,
)
