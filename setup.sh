#!/bin/sh
# Offline set-up after a fresh restore: pre-build the harness variants the quick tier uses
# (each check rebuilds incrementally against /repo's working tree anyway).
set -e
cd "$(dirname "$0")"
export CARGO_NET_OFFLINE=true
[ -f harness/Cargo.lock ] || cp /repo/Cargo.lock harness/Cargo.lock
python3 - <<'PY'
import sys, os
sys.path.insert(0, os.path.join(os.getcwd(), "lib"))
import orchestrate
bad = 0
for v in ("checked", "tsan"):
    ok, text = orchestrate.build(v)
    if not ok:
        print(text[-3000:])
        bad = 1
sys.exit(bad)
PY
