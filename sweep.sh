#!/bin/bash
# usage: sweep.sh <tier> <seed> [props...]   — runs the checks one after another, prints one line each
TIER=$1; SEED=$2; shift 2
PROPS=${@:-C01 C02 C03 C04 C05 C06 C07 C08 C09 C10 C11 C12 C13 C14 C15 C16 C17 C18 C19 C20}
cd "$(dirname "$0")"
for p in $PROPS; do
  START=$(date +%s)
  OUT=$(VERIF_SEED=$SEED ./check $p --tier $TIER 2>/dev/null); RC=$?
  echo "$p tier=$TIER seed=$SEED exit=$RC $(( $(date +%s) - START ))s :: $(echo "$OUT" | grep -E "^(VIOLATION|INCONCLUSIVE)" | cut -c1-400 | head -5 | tr '\n' ' ')"
done
