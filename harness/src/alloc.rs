//! Counting global allocator: current and peak heap bytes (C18's "no unbounded allocation").

use std::alloc::{GlobalAlloc, Layout, System};
use std::sync::atomic::{AtomicUsize, Ordering};

pub struct Counting;

static CUR: AtomicUsize = AtomicUsize::new(0);
static PEAK: AtomicUsize = AtomicUsize::new(0);
static LARGEST: AtomicUsize = AtomicUsize::new(0);

unsafe impl GlobalAlloc for Counting {
    unsafe fn alloc(&self, l: Layout) -> *mut u8 {
        let p = System.alloc(l);
        if !p.is_null() {
            let c = CUR.fetch_add(l.size(), Ordering::Relaxed) + l.size();
            PEAK.fetch_max(c, Ordering::Relaxed);
            LARGEST.fetch_max(l.size(), Ordering::Relaxed);
        }
        p
    }
    unsafe fn dealloc(&self, p: *mut u8, l: Layout) {
        CUR.fetch_sub(l.size(), Ordering::Relaxed);
        System.dealloc(p, l)
    }
    unsafe fn alloc_zeroed(&self, l: Layout) -> *mut u8 {
        let p = System.alloc_zeroed(l);
        if !p.is_null() {
            let c = CUR.fetch_add(l.size(), Ordering::Relaxed) + l.size();
            PEAK.fetch_max(c, Ordering::Relaxed);
            LARGEST.fetch_max(l.size(), Ordering::Relaxed);
        }
        p
    }
    unsafe fn realloc(&self, p: *mut u8, l: Layout, new: usize) -> *mut u8 {
        let q = System.realloc(p, l, new);
        if !q.is_null() {
            if new >= l.size() {
                let c = CUR.fetch_add(new - l.size(), Ordering::Relaxed) + (new - l.size());
                PEAK.fetch_max(c, Ordering::Relaxed);
                LARGEST.fetch_max(new, Ordering::Relaxed);
            } else {
                CUR.fetch_sub(l.size() - new, Ordering::Relaxed);
            }
        }
        q
    }
}

/// start a measurement window: returns the baseline (bytes currently allocated)
pub fn begin() -> usize {
    let c = CUR.load(Ordering::Relaxed);
    PEAK.store(c, Ordering::Relaxed);
    LARGEST.store(0, Ordering::Relaxed);
    c
}

/// (peak bytes above the baseline, largest single request) since `begin`
pub fn end(baseline: usize) -> (usize, usize) {
    (PEAK.load(Ordering::Relaxed).saturating_sub(baseline), LARGEST.load(Ordering::Relaxed))
}
