//! Independent reader of the .htsvoice format (oracle side; shares no code with jbonsai).
//!
//! Layout: text header sections [GLOBAL] [STREAM] [POSITION], then [DATA]; all byte ranges
//! in [POSITION] are inclusive and relative to the first byte after "[DATA]\n".

use crate::refimpl::question_matches;
use std::collections::BTreeMap;

#[derive(Clone, Debug, PartialEq)]
pub enum RefChild {
    Node(i64),
    Leaf(usize),
}

#[derive(Clone, Debug)]
pub struct RefNode {
    pub id: i64,
    pub question: String,
    pub no: RefChild,
    pub yes: RefChild,
}

#[derive(Clone, Debug)]
pub struct RefTree {
    pub state: usize,
    pub root: RefChild,
    pub nodes: Vec<RefNode>,
}

#[derive(Clone, Debug, Default)]
pub struct RefModel {
    pub questions: BTreeMap<String, Vec<String>>,
    pub trees: Vec<RefTree>,
    /// pdfs[tree position][pdf id - 1] = raw f32 entries
    pub pdfs: Vec<Vec<Vec<f32>>>,
    pub pdf_len: usize,
}

#[derive(Clone, Debug)]
pub struct RefStream {
    pub name: String,
    pub vector_length: usize,
    pub num_windows: usize,
    pub is_msd: bool,
    pub use_gv: bool,
    pub options: Vec<String>,
    pub windows: Vec<Vec<f64>>,
    pub model: RefModel,
    pub gv: Option<RefModel>,
}

#[derive(Clone, Debug)]
pub struct RefVoice {
    pub global: BTreeMap<String, String>,
    pub sampling_frequency: usize,
    pub frame_period: usize,
    pub num_states: usize,
    pub num_streams: usize,
    pub stream_types: Vec<String>,
    pub gv_off_context: Vec<String>,
    pub streams: Vec<RefStream>,
    pub duration: RefModel,
}

#[derive(Debug)]
pub struct LookupTrace {
    pub pdf_id: usize,
    pub internal_nodes: usize,
    pub yes_count: usize,
}

fn find(hay: &[u8], needle: &[u8], from: usize) -> Option<usize> {
    if needle.is_empty() || hay.len() < needle.len() {
        return None;
    }
    (from..=hay.len() - needle.len()).find(|&i| &hay[i..i + needle.len()] == needle)
}

fn kv_lines(text: &str) -> Vec<(String, String)> {
    text.lines()
        .filter(|l| !l.trim().is_empty())
        .filter_map(|l| l.split_once(':').map(|(k, v)| (k.to_string(), v.to_string())))
        .collect()
}

fn split_list(v: &str) -> Vec<String> {
    if v.is_empty() {
        return vec![];
    }
    v.split(',').map(|s| s.trim().trim_matches('"').to_string()).collect()
}

fn range(v: &str) -> Result<(usize, usize), String> {
    let (a, b) = v.split_once('-').ok_or_else(|| format!("bad range {}", v))?;
    Ok((
        a.trim().parse().map_err(|_| format!("bad range {}", v))?,
        b.trim().parse().map_err(|_| format!("bad range {}", v))?,
    ))
}

fn trailing_number(name: &str) -> Option<usize> {
    let digits: String = name
        .chars()
        .rev()
        .take_while(|c| c.is_ascii_digit())
        .collect::<Vec<_>>()
        .into_iter()
        .rev()
        .collect();
    digits.parse().ok()
}

fn child(tok: &str) -> Result<RefChild, String> {
    let t = tok.trim_matches('"');
    if let Ok(i) = t.parse::<i64>() {
        return Ok(RefChild::Node(i));
    }
    trailing_number(t).map(RefChild::Leaf).ok_or_else(|| format!("bad tree child {}", tok))
}

pub fn parse_tree_text(text: &str) -> Result<(BTreeMap<String, Vec<String>>, Vec<RefTree>), String> {
    let mut questions = BTreeMap::new();
    let mut trees = Vec::new();
    let mut rest = text;
    // questions: lines starting with QS
    loop {
        let t = rest.trim_start_matches([' ', '\n']);
        if let Some(r) = t.strip_prefix("QS") {
            let end = r.find('}').ok_or("unterminated QS")?;
            let body = &r[..end];
            let (name, pats) = body.split_once('{').ok_or("QS without {")?;
            questions.insert(name.trim().to_string(), split_list(pats.trim()));
            rest = &r[end + 1..];
        } else {
            rest = t;
            break;
        }
    }
    // trees
    loop {
        let t = rest.trim_start_matches([' ', '\n']);
        if t.is_empty() {
            break;
        }
        let r = t.strip_prefix("{*}[").ok_or_else(|| format!("expected tree at {:?}", &t[..t.len().min(30)]))?;
        let close = r.find(']').ok_or("no ]")?;
        let state: usize = r[..close].trim().parse().map_err(|_| "bad state")?;
        let r = r[close + 1..].trim_start_matches([' ', '\n']);
        if let Some(body) = r.strip_prefix('{') {
            let end = body.find('}').ok_or("unterminated tree")?;
            let mut nodes = Vec::new();
            for line in body[..end].lines() {
                let toks: Vec<&str> = line.split_whitespace().collect();
                if toks.is_empty() {
                    continue;
                }
                if toks.len() != 4 {
                    return Err(format!("bad node line {:?}", line));
                }
                nodes.push(RefNode {
                    id: toks[0].parse().map_err(|_| format!("bad node id {}", toks[0]))?,
                    question: toks[1].to_string(),
                    no: child(toks[2])?,
                    yes: child(toks[3])?,
                });
            }
            let root = RefChild::Node(nodes.first().ok_or("empty tree")?.id);
            trees.push(RefTree { state, root, nodes });
            rest = &body[end + 1..];
        } else {
            let end = r.find([' ', '\n']).unwrap_or(r.len());
            let root = child(&r[..end])?;
            trees.push(RefTree { state, root, nodes: vec![] });
            rest = &r[end..];
        }
    }
    Ok((questions, trees))
}

fn parse_model(
    data: &[u8],
    tree_range: (usize, usize),
    pdf_range: (usize, usize),
    pdf_len: usize,
) -> Result<RefModel, String> {
    if tree_range.1 >= data.len() || pdf_range.1 >= data.len() || tree_range.0 > tree_range.1 + 1 {
        return Err("range outside data".into());
    }
    let text = std::str::from_utf8(&data[tree_range.0..=tree_range.1]).map_err(|_| "tree text not utf8")?;
    let (questions, trees) = parse_tree_text(text)?;
    let pdf = &data[pdf_range.0..=pdf_range.1];
    let ntree = trees.len();
    if pdf.len() < 4 * ntree {
        return Err("pdf block too short".into());
    }
    let counts: Vec<usize> = (0..ntree)
        .map(|i| u32::from_le_bytes(pdf[4 * i..4 * i + 4].try_into().unwrap()) as usize)
        .collect();
    let mut off = 4 * ntree;
    let mut pdfs = Vec::new();
    for n in counts {
        let mut t = Vec::with_capacity(n);
        for _ in 0..n {
            if off + 4 * pdf_len > pdf.len() {
                return Err("pdf block too short".into());
            }
            t.push(
                (0..pdf_len)
                    .map(|k| f32::from_le_bytes(pdf[off + 4 * k..off + 4 * k + 4].try_into().unwrap()))
                    .collect::<Vec<f32>>(),
            );
            off += 4 * pdf_len;
        }
        pdfs.push(t);
    }
    if off != pdf.len() {
        return Err(format!("pdf block has {} trailing bytes", pdf.len() - off));
    }
    Ok(RefModel { questions, trees, pdfs, pdf_len })
}

impl RefModel {
    /// Walk the tree at file position `tree_pos` for the label text; first child on "no",
    /// second on "yes".
    pub fn lookup(&self, tree_pos: usize, label_text: &str) -> Result<LookupTrace, String> {
        let tree = self.trees.get(tree_pos).ok_or("no such tree")?;
        let mut cur = tree.root.clone();
        let mut internal = 0;
        let mut yes = 0;
        let mut steps = 0;
        loop {
            match cur {
                RefChild::Leaf(id) => {
                    return Ok(LookupTrace { pdf_id: id, internal_nodes: internal, yes_count: yes })
                }
                RefChild::Node(id) => {
                    let n = tree.nodes.iter().find(|n| n.id == id).ok_or("dangling node id")?;
                    let pats = self.questions.get(&n.question).ok_or("unknown question")?;
                    internal += 1;
                    if question_matches(pats, label_text) {
                        yes += 1;
                        cur = n.yes.clone();
                    } else {
                        cur = n.no.clone();
                    }
                }
            }
            steps += 1;
            if steps > 100_000 {
                return Err("tree walk does not terminate".into());
            }
        }
    }
    pub fn tree_pos_for_state(&self, state: usize) -> Option<usize> {
        self.trees.iter().position(|t| t.state == state)
    }
    pub fn pdf(&self, tree_pos: usize, pdf_id: usize) -> Option<&[f32]> {
        self.pdfs.get(tree_pos)?.get(pdf_id.checked_sub(1)?).map(|v| v.as_slice())
    }
}

pub fn read_voice(bytes: &[u8]) -> Result<RefVoice, String> {
    let g = find(bytes, b"[GLOBAL]\n", 0).ok_or("no [GLOBAL]")?;
    let s = find(bytes, b"[STREAM]\n", g).ok_or("no [STREAM]")?;
    let p = find(bytes, b"[POSITION]\n", s).ok_or("no [POSITION]")?;
    let d = find(bytes, b"[DATA]\n", p).ok_or("no [DATA]")?;
    let global_txt = std::str::from_utf8(&bytes[g + 9..s]).map_err(|_| "global not utf8")?;
    let stream_txt = std::str::from_utf8(&bytes[s + 9..p]).map_err(|_| "stream not utf8")?;
    let pos_txt = std::str::from_utf8(&bytes[p + 11..d]).map_err(|_| "position not utf8")?;
    let data = &bytes[d + 7..];

    let global: BTreeMap<String, String> = kv_lines(global_txt).into_iter().collect();
    let getn = |k: &str| -> Result<usize, String> {
        global.get(k).ok_or(format!("missing {}", k))?.trim().parse().map_err(|_| format!("bad {}", k))
    };
    let stream_types = split_list(global.get("STREAM_TYPE").ok_or("missing STREAM_TYPE")?);
    let gv_off_context = split_list(global.get("GV_OFF_CONTEXT").map(|s| s.as_str()).unwrap_or(""));
    let num_states = getn("NUM_STATES")?;

    let skv: BTreeMap<String, String> = kv_lines(stream_txt).into_iter().collect();
    let pkv: BTreeMap<String, String> = kv_lines(pos_txt).into_iter().collect();
    let sget = |k: &str, name: &str| -> Result<String, String> {
        skv.get(&format!("{}[{}]", k, name)).cloned().ok_or(format!("missing {}[{}]", k, name))
    };
    let pget = |k: &str, name: &str| -> Option<String> { pkv.get(&format!("{}[{}]", k, name)).cloned() };

    let duration = parse_model(
        data,
        range(pkv.get("DURATION_TREE").ok_or("missing DURATION_TREE")?)?,
        range(pkv.get("DURATION_PDF").ok_or("missing DURATION_PDF")?)?,
        num_states * 2,
    )?;

    let mut streams = Vec::new();
    for name in &stream_types {
        let vector_length: usize = sget("VECTOR_LENGTH", name)?.trim().parse().map_err(|_| "bad VECTOR_LENGTH")?;
        let num_windows: usize = sget("NUM_WINDOWS", name)?.trim().parse().map_err(|_| "bad NUM_WINDOWS")?;
        let is_msd = sget("IS_MSD", name)?.trim() == "1";
        let use_gv = sget("USE_GV", name)?.trim() == "1";
        let options = split_list(&sget("OPTION", name).unwrap_or_default());
        let mut windows = Vec::new();
        for r in pget("STREAM_WIN", name).ok_or("missing STREAM_WIN")?.split(',') {
            let (a, b) = range(r)?;
            if b >= data.len() || a > b {
                return Err("window range outside data".into());
            }
            let txt = std::str::from_utf8(&data[a..=b]).map_err(|_| "window not utf8")?;
            let mut toks = txt.split_whitespace();
            let n: usize = toks.next().ok_or("empty window")?.parse().map_err(|_| "bad window n")?;
            let coefs: Vec<f64> = toks.map(|t| t.parse::<f64>().map_err(|_| "bad window coef")).collect::<Result<_, _>>()?;
            if coefs.len() != n {
                return Err("window count mismatch".into());
            }
            windows.push(coefs);
        }
        let model = parse_model(
            data,
            range(&pget("STREAM_TREE", name).ok_or("missing STREAM_TREE")?)?,
            range(&pget("STREAM_PDF", name).ok_or("missing STREAM_PDF")?)?,
            vector_length * num_windows * 2 + is_msd as usize,
        )?;
        let gv = if use_gv {
            Some(parse_model(
                data,
                range(&pget("GV_TREE", name).ok_or("missing GV_TREE")?)?,
                range(&pget("GV_PDF", name).ok_or("missing GV_PDF")?)?,
                vector_length * 2,
            )?)
        } else {
            None
        };
        streams.push(RefStream {
            name: name.clone(),
            vector_length,
            num_windows,
            is_msd,
            use_gv,
            options,
            windows,
            model,
            gv,
        });
    }

    Ok(RefVoice {
        sampling_frequency: getn("SAMPLING_FREQUENCY")?,
        frame_period: getn("FRAME_PERIOD")?,
        num_states,
        num_streams: getn("NUM_STREAMS")?,
        stream_types,
        gv_off_context,
        streams,
        duration,
        global,
    })
}

/// Decoded Gaussian of a stream PDF: (means, variances, msd weight)
pub fn split_pdf(raw: &[f32], is_msd: bool) -> (Vec<f64>, Vec<f64>, Option<f64>) {
    let n = (raw.len() - is_msd as usize) / 2;
    (
        raw[..n].iter().map(|x| *x as f64).collect(),
        raw[n..2 * n].iter().map(|x| *x as f64).collect(),
        if is_msd { Some(raw[2 * n] as f64) } else { None },
    )
}
