//! Observation of one synthesis through the public API + the verif hooks; reference
//! per-label Gaussians computed from the file by the independent reader.

use crate::refimpl::{round_half_away, tie_distance};
use crate::voiceread::{split_pdf, RefVoice};
use jbonsai::label::ToLabels;
use jbonsai::{Engine, EngineError};

pub const NODATA: f64 = -1e10;

#[derive(Clone, Debug)]
pub struct Run {
    pub durations: Vec<usize>,
    pub spectrum: Vec<Vec<f64>>,
    pub lf0: Vec<Vec<f64>>,
    pub lpf: Vec<Vec<f64>>,
    pub wave: Vec<f64>,
}

/// generator() + hook read-out + generate_all(); panics propagate to the caller's guard.
pub fn run_with_hooks(engine: &Engine, labels: impl ToLabels) -> Result<Run, EngineError> {
    let g = engine.generator(labels)?;
    let (s, l, p) = g.verif_trajectories();
    let (spectrum, lf0, lpf) = (s.to_vec(), l.to_vec(), p.to_vec());
    let durations = g.verif_durations().to_vec();
    let wave = g.generate_all();
    Ok(Run { durations, spectrum, lf0, lpf, wave })
}

/// hooks only (no waveform rendering)
pub fn trajectories(engine: &Engine, labels: impl ToLabels) -> Result<Run, EngineError> {
    let g = engine.generator(labels)?;
    let (s, l, p) = g.verif_trajectories();
    Ok(Run {
        durations: g.verif_durations().to_vec(),
        spectrum: s.to_vec(),
        lf0: l.to_vec(),
        lpf: p.to_vec(),
        wave: vec![],
    })
}

#[derive(Clone, Debug)]
pub struct Gauss {
    pub mean: Vec<f64>,
    pub vari: Vec<f64>,
    pub msd: Option<f64>,
}

#[derive(Clone, Debug)]
pub struct RefLabel {
    /// per state (mean, variance) of the duration
    pub dur: Vec<(f64, f64)>,
    /// streams[s][state]
    pub streams: Vec<Vec<Gauss>>,
    /// number of internal nodes / yes answers seen on all walks (non-triviality bookkeeping)
    pub internal_nodes: usize,
    pub yes_count: usize,
}

/// Everything the file says about one label: walks every tree with the wildcard matcher.
pub fn ref_label(v: &RefVoice, label_text: &str) -> Result<RefLabel, String> {
    let mut internal = 0;
    let mut yes = 0;
    let t = v.duration.lookup(0, label_text)?;
    internal += t.internal_nodes;
    yes += t.yes_count;
    let raw = v.duration.pdf(0, t.pdf_id).ok_or("duration pdf id out of range")?;
    let n = v.num_states;
    let dur = (0..n).map(|i| (raw[i] as f64, raw[n + i] as f64)).collect();
    let mut streams = Vec::new();
    for s in &v.streams {
        let mut per_state = Vec::new();
        for state in 2..2 + n {
            let pos = s.model.tree_pos_for_state(state).ok_or("no tree for state")?;
            let t = s.model.lookup(pos, label_text)?;
            internal += t.internal_nodes;
            yes += t.yes_count;
            let raw = s.model.pdf(pos, t.pdf_id).ok_or("stream pdf id out of range")?;
            let (mean, vari, msd) = split_pdf(raw, s.is_msd);
            per_state.push(Gauss { mean, vari, msd });
        }
        streams.push(per_state);
    }
    Ok(RefLabel { dur, streams, internal_nodes: internal, yes_count: yes })
}

/// GV Gaussian (means = target variances, variances) selected by the first label of the utterance
pub fn ref_gv(v: &RefVoice, stream: usize, label_text: &str) -> Result<Option<Gauss>, String> {
    let s = &v.streams[stream];
    let Some(g) = &s.gv else { return Ok(None) };
    let t = g.lookup(0, label_text)?;
    let raw = g.pdf(0, t.pdf_id).ok_or("gv pdf id out of range")?;
    let (mean, vari, _) = split_pdf(raw, false);
    Ok(Some(Gauss { mean, vari, msd: None }))
}

/// speed-1 duration law: max(round(mean), 1); `ambiguous` when the mean sits on a .5 tie
pub fn dur_speed1(mean: f64) -> (usize, bool) {
    let d = round_half_away(mean).max(1.0) as usize;
    let t = tie_distance(mean);
    // (only a mean within a few ulps of the tie is ambiguous: it may come out of a weighted sum)
    (d, t != 0.0 && t < 8.0 * f64::EPSILON * mean.abs().max(1.0) && mean > 0.4)
}

/// total-length law for speed s: max(round(F1/s), nstates); returns (value, ambiguous).
/// `x = fl(F1/s)` is the correctly rounded quotient, and k + 0.5 is representable, so x on one
/// side of a tie puts the exact quotient on the same side: the law is ambiguous only when x
/// lands exactly on a tie while the exact quotient does not.
pub fn total_at_speed(f1: usize, speed: f64, nstates: usize) -> (usize, bool) {
    let x = f1 as f64 / speed;
    let t = round_half_away(x).max(1.0) as usize;
    let on_tie = x.is_finite() && (x - x.floor()) == 0.5;
    (t.max(nstates), on_tie && !exact_half_quotient(f1, speed, x.floor()))
}

/// F1 / s == k + 0.5 in exact arithmetic (s taken as the exact binary value it is)
fn exact_half_quotient(f1: usize, s: f64, k: f64) -> bool {
    if !(s.is_finite() && s > 0.0 && k >= 0.0 && k < 1e15) {
        return false;
    }
    let bits = s.to_bits();
    let exp = ((bits >> 52) & 0x7ff) as i64;
    let frac = bits & ((1u64 << 52) - 1);
    let (mant, e) = if exp == 0 { (frac, -1074) } else { (frac | (1u64 << 52), exp - 1075) };
    // 2 F1 == mant * 2^e * (2k + 1)
    let lhs = 2u128 * f1 as u128;
    let Some(rhs) = (mant as u128).checked_mul(2 * (k as u128) + 1) else { return false };
    if e >= 0 {
        match rhs.checked_shl(e as u32) {
            Some(r) if e < 128 && (r >> e) == rhs => lhs == r,
            _ => false,
        }
    } else {
        let sh = (-e) as u32;
        if sh >= 128 {
            return false;
        }
        match lhs.checked_shl(sh) {
            Some(l) if (l >> sh) == lhs => l == rhs,
            _ => false,
        }
    }
}

pub fn voiced_mask(lf0: &[Vec<f64>]) -> Vec<bool> {
    lf0.iter().map(|f| f[0] != NODATA).collect()
}

/// Settings the vocoder is built from.
#[derive(Clone, Debug)]
pub struct VocoderParams {
    pub nmcp: usize,
    pub nlpf: usize,
    pub stage: usize,
    pub log_gain: bool,
    pub rate: usize,
    pub alpha: f64,
    pub beta: f64,
    pub volume: f64,
    pub fperiod: usize,
}

/// Render hooked trajectories through the public Vocoder / SpeechGenerator with the given
/// settings (the independent second route to the waveform).
pub fn rerender(p: &VocoderParams, run: &Run) -> Vec<f64> {
    let voc = jbonsai::vocoder::Vocoder::new(p.nmcp, p.nlpf, p.stage, p.log_gain, p.rate, p.alpha, p.beta, p.volume, p.fperiod);
    jbonsai::speech::SpeechGenerator::new(p.fperiod, voc, run.spectrum.clone(), run.lf0.clone(), run.lpf.clone()).generate_all()
}

/// value of `name: ` in a Debug rendering
pub fn debug_field(dbg: &str, name: &str) -> Option<String> {
    let i = dbg.find(&format!("{}: ", name))?;
    let rest = &dbg[i + name.len() + 2..];
    let end = rest.find([',', ' ', '}']).unwrap_or(rest.len());
    Some(rest[..end].to_string())
}

/// vocoder settings as the engine's *getters* report them (stage / log-gain from Debug);
/// volume must be the untouched default (1.0) for an exact comparison
pub fn params_from_getters(e: &Engine) -> Option<VocoderParams> {
    let c = &e.condition;
    let dbg = format!("{:?}", c);
    let n = e.voices.global_metadata().num_streams;
    Some(VocoderParams {
        nmcp: e.voices.stream_metadata(0).vector_length,
        nlpf: if n > 2 { e.voices.stream_metadata(2).vector_length } else { 0 },
        stage: debug_field(&dbg, "stage")?.parse().ok()?,
        log_gain: debug_field(&dbg, "use_log_gain")?.parse().ok()?,
        rate: c.get_sampling_frequency(),
        alpha: c.get_alpha(),
        beta: c.get_beta(),
        volume: 1.0,
        fperiod: c.get_fperiod(),
    })
}

pub fn bits_equal(a: &[f64], b: &[f64]) -> bool {
    a.len() == b.len() && a.iter().zip(b).all(|(x, y)| x.to_bits() == y.to_bits())
}

/// The trajectories the public building blocks give for the engine's *per-stream* settings:
/// stream i is generated with gv_weight[i], msd_threshold[i] (and the half tone on stream 1)
/// from Models::model_stream(i) over the given durations.
pub fn trajectories_from_public_api(e: &Engine, labels: &[jlabel::Label], durations: &[usize]) -> Vec<Vec<Vec<f64>>> {
    use jbonsai::mlpg_adjust::MlpgAdjust;
    use jbonsai::model::Models;
    let models = Models::new(labels, &e.voices, e.condition.get_interporation_weight());
    let n = e.voices.global_metadata().num_streams;
    (0..n)
        .map(|i| {
            let mut ms = models.model_stream(i);
            let h = e.condition.get_additional_half_tone();
            if i == 1 && h != 0.0 {
                // (h = 0 is the identity by definition, so nothing is applied then)
                ms.stream.apply_additional_half_tone(h);
            }
            MlpgAdjust::new(e.condition.get_gv_weight(i), e.condition.get_msd_threshold(i), ms).create(durations)
        })
        .collect()
}

/// worst deviation between two trajectories (no-data markers must coincide exactly)
pub fn trajectory_deviation(a: &[Vec<f64>], b: &[Vec<f64>]) -> f64 {
    if a.len() != b.len() {
        return f64::INFINITY;
    }
    let mut worst = 0.0f64;
    for (x, y) in a.iter().zip(b) {
        if x.len() != y.len() {
            return f64::INFINITY;
        }
        for (p, q) in x.iter().zip(y) {
            if (*p == NODATA) != (*q == NODATA) {
                return f64::INFINITY;
            }
            let d = (p - q).abs() / (1.0 + p.abs());
            if d > worst || d.is_nan() {
                worst = if d.is_nan() && p.to_bits() == q.to_bits() { worst } else { d };
            }
        }
    }
    worst
}
