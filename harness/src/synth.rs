//! Observation of one synthesis through the public API + the verif hooks; reference
//! per-label Gaussians computed from the file by the independent reader.

use crate::refimpl::{round_half_away, tie_distance};
use crate::voiceread::{split_pdf, RefVoice};
use jbonsai::label::ToLabels;
use jbonsai::{Engine, EngineError};

pub const NODATA: f64 = -1e10;

#[derive(Clone, Debug)]
pub struct Run {
    pub durations: Vec<usize>,
    pub spectrum: Vec<Vec<f64>>,
    pub lf0: Vec<Vec<f64>>,
    pub lpf: Vec<Vec<f64>>,
    pub wave: Vec<f64>,
}

/// generator() + hook read-out + generate_all(); panics propagate to the caller's guard.
pub fn run_with_hooks(engine: &Engine, labels: impl ToLabels) -> Result<Run, EngineError> {
    let g = engine.generator(labels)?;
    let (s, l, p) = g.verif_trajectories();
    let (spectrum, lf0, lpf) = (s.to_vec(), l.to_vec(), p.to_vec());
    let durations = g.verif_durations().to_vec();
    let wave = g.generate_all();
    Ok(Run { durations, spectrum, lf0, lpf, wave })
}

/// hooks only (no waveform rendering)
pub fn trajectories(engine: &Engine, labels: impl ToLabels) -> Result<Run, EngineError> {
    let g = engine.generator(labels)?;
    let (s, l, p) = g.verif_trajectories();
    Ok(Run {
        durations: g.verif_durations().to_vec(),
        spectrum: s.to_vec(),
        lf0: l.to_vec(),
        lpf: p.to_vec(),
        wave: vec![],
    })
}

#[derive(Clone, Debug)]
pub struct Gauss {
    pub mean: Vec<f64>,
    pub vari: Vec<f64>,
    pub msd: Option<f64>,
}

#[derive(Clone, Debug)]
pub struct RefLabel {
    /// per state (mean, variance) of the duration
    pub dur: Vec<(f64, f64)>,
    /// streams[s][state]
    pub streams: Vec<Vec<Gauss>>,
    /// number of internal nodes / yes answers seen on all walks (non-triviality bookkeeping)
    pub internal_nodes: usize,
    pub yes_count: usize,
}

/// Everything the file says about one label: walks every tree with the wildcard matcher.
pub fn ref_label(v: &RefVoice, label_text: &str) -> Result<RefLabel, String> {
    let mut internal = 0;
    let mut yes = 0;
    let t = v.duration.lookup(0, label_text)?;
    internal += t.internal_nodes;
    yes += t.yes_count;
    let raw = v.duration.pdf(0, t.pdf_id).ok_or("duration pdf id out of range")?;
    let n = v.num_states;
    let dur = (0..n).map(|i| (raw[i] as f64, raw[n + i] as f64)).collect();
    let mut streams = Vec::new();
    for s in &v.streams {
        let mut per_state = Vec::new();
        for state in 2..2 + n {
            let pos = s.model.tree_pos_for_state(state).ok_or("no tree for state")?;
            let t = s.model.lookup(pos, label_text)?;
            internal += t.internal_nodes;
            yes += t.yes_count;
            let raw = s.model.pdf(pos, t.pdf_id).ok_or("stream pdf id out of range")?;
            let (mean, vari, msd) = split_pdf(raw, s.is_msd);
            per_state.push(Gauss { mean, vari, msd });
        }
        streams.push(per_state);
    }
    Ok(RefLabel { dur, streams, internal_nodes: internal, yes_count: yes })
}

/// GV Gaussian (means = target variances, variances) selected by the first label of the utterance
pub fn ref_gv(v: &RefVoice, stream: usize, label_text: &str) -> Result<Option<Gauss>, String> {
    let s = &v.streams[stream];
    let Some(g) = &s.gv else { return Ok(None) };
    let t = g.lookup(0, label_text)?;
    let raw = g.pdf(0, t.pdf_id).ok_or("gv pdf id out of range")?;
    let (mean, vari, _) = split_pdf(raw, false);
    Ok(Some(Gauss { mean, vari, msd: None }))
}

/// speed-1 duration law: max(round(mean), 1); `ambiguous` when the mean sits on a .5 tie
pub fn dur_speed1(mean: f64) -> (usize, bool) {
    let d = round_half_away(mean).max(1.0) as usize;
    let t = tie_distance(mean);
    (d, t != 0.0 && t < 1e-9 && mean > 0.4)
}

/// total-length law for speed s: max(round(F1/s), nstates); returns (value, ambiguous)
pub fn total_at_speed(f1: usize, speed: f64, nstates: usize) -> (usize, bool) {
    let x = f1 as f64 / speed;
    let t = round_half_away(x).max(1.0) as usize;
    // an exactly representable tie (x == k + 0.5) is rounded away from zero by every correct
    // evaluation; only near-ties depend on the evaluation order
    let td = tie_distance(x);
    (t.max(nstates), td != 0.0 && td < 1e-7)
}

pub fn voiced_mask(lf0: &[Vec<f64>]) -> Vec<bool> {
    lf0.iter().map(|f| f[0] != NODATA).collect()
}
