//! Shard context: case driver, event log, report accumulation, panic capture.

use crate::json::J;
use crate::rng::{hash_str, mix, Rng};
use std::cell::RefCell;
use std::collections::{BTreeMap, BTreeSet};
use std::io::Write;
use std::path::PathBuf;

#[derive(Clone, Copy, PartialEq, Eq, Debug)]
pub enum Tier {
    Quick,
    Thorough,
}

#[derive(Clone, Debug)]
pub struct PanicRecord {
    pub file: String,
    pub line: u32,
    pub msg: String,
}

impl PanicRecord {
    /// true when the panic was raised by the code under observation (jbonsai or a
    /// dependency / std reached through it), false when it is the harness' own bug.
    pub fn in_target(&self) -> bool {
        let f = &self.file;
        !(f.starts_with("src/") || f.contains("/verif/harness/"))
    }
    /// stable signature: file + message with digit runs collapsed, no line number
    pub fn sig(&self) -> String {
        format!("panic@{}:{}", self.file, normalise(&self.msg))
    }
}

pub fn normalise(s: &str) -> String {
    let mut out = String::new();
    let mut in_digits = false;
    for c in s.chars() {
        if c.is_ascii_digit() {
            if !in_digits {
                out.push('N');
            }
            in_digits = true;
        } else {
            in_digits = false;
            if c == '\n' {
                out.push(' ');
            } else {
                out.push(c);
            }
        }
    }
    if out.len() > 160 {
        let mut cut = 160;
        while !out.is_char_boundary(cut) {
            cut -= 1;
        }
        out.truncate(cut);
    }
    out
}

/// start time (ms since process start, +1) of the case in progress, 0 when idle
static CASE_STARTED_MS: std::sync::atomic::AtomicU64 = std::sync::atomic::AtomicU64::new(0);
static CASE_NAME: std::sync::Mutex<String> = std::sync::Mutex::new(String::new());

/// A helper thread that ends the process (exit code 124) when one case runs for longer than
/// JBV_WATCHDOG_S seconds of CPU time (default 60; thousands of times a normal case). This is not a
/// verdict: the orchestrator re-runs that case alone with a much larger limit first.
pub fn start_case_watchdog() {
    let limit_s: u64 = std::env::var("JBV_WATCHDOG_S").ok().and_then(|s| s.parse().ok()).unwrap_or(60);
    let t0 = std::time::Instant::now();
    std::thread::spawn(move || loop {
        std::thread::sleep(std::time::Duration::from_millis(500));
        let started = CASE_STARTED_MS.load(std::sync::atomic::Ordering::Relaxed);
        if started != 0 {
            // the limit is on the CPU time this process has burnt inside the case (a busy
            // machine must not look like a hang); wall-clock time only counts at 10x the limit
            // (a case that neither finishes nor computes)
            let cpu_started = CASE_STARTED_CPU_MS.load(std::sync::atomic::Ordering::Relaxed);
            let cpu_now = process_cpu_ms();
            let now = t0.elapsed().as_millis() as u64 + 1;
            let cpu_over = cpu_now != 0 && cpu_started != 0 && cpu_now.saturating_sub(cpu_started) > limit_s * 1000;
            let wall_limit = if cpu_now == 0 { limit_s } else { limit_s * 10 };
            let wall_over = now.saturating_sub(started) > wall_limit * 1000;
            // (re-read: the case may have ended while we were measuring)
            if (cpu_over || wall_over) && CASE_STARTED_MS.load(std::sync::atomic::Ordering::Relaxed) == started {
                let name = CASE_NAME.lock().map(|s| s.clone()).unwrap_or_default();
                eprintln!(
                    "WATCHDOG: case {} has used more than {} s of {}; ending this process",
                    name,
                    if cpu_over { limit_s } else { wall_limit },
                    if cpu_over { "CPU time" } else { "wall-clock time" }
                );
                std::process::exit(124);
            }
        }
    });
    WATCHDOG_T0.get_or_init(|| t0);
}

/// CPU time consumed by this process so far, in ms (+1); 0 when it cannot be measured
fn process_cpu_ms() -> u64 {
    #[cfg(miri)]
    {
        0
    }
    #[cfg(not(miri))]
    {
        let mut ts = libc::timespec { tv_sec: 0, tv_nsec: 0 };
        // SAFETY: plain libc call writing into a local timespec
        let rc = unsafe { libc::clock_gettime(libc::CLOCK_PROCESS_CPUTIME_ID, &mut ts) };
        if rc != 0 {
            return 0;
        }
        ts.tv_sec as u64 * 1000 + ts.tv_nsec as u64 / 1_000_000 + 1
    }
}
static CASE_STARTED_CPU_MS: std::sync::atomic::AtomicU64 = std::sync::atomic::AtomicU64::new(0);
static WATCHDOG_T0: std::sync::OnceLock<std::time::Instant> = std::sync::OnceLock::new();

fn case_begin(name: &str) {
    if let Some(t0) = WATCHDOG_T0.get() {
        if let Ok(mut n) = CASE_NAME.lock() {
            *n = name.to_string();
        }
        CASE_STARTED_CPU_MS.store(process_cpu_ms(), std::sync::atomic::Ordering::Relaxed);
        CASE_STARTED_MS.store(t0.elapsed().as_millis() as u64 + 1, std::sync::atomic::Ordering::Relaxed);
    }
}
fn case_end() {
    CASE_STARTED_MS.store(0, std::sync::atomic::Ordering::Relaxed);
}

thread_local! {
    static LAST_PANIC: RefCell<Option<PanicRecord>> = const { RefCell::new(None) };
}

pub fn install_panic_hook() {
    std::panic::set_hook(Box::new(|info| {
        let (file, line) = info
            .location()
            .map(|l| (l.file().to_string(), l.line()))
            .unwrap_or(("?".into(), 0));
        let msg = if let Some(s) = info.payload().downcast_ref::<&str>() {
            s.to_string()
        } else if let Some(s) = info.payload().downcast_ref::<String>() {
            s.clone()
        } else {
            "<non-string panic payload>".to_string()
        };
        LAST_PANIC.with(|p| *p.borrow_mut() = Some(PanicRecord { file, line, msg }));
    }));
}

/// Run `f`, converting a panic into a PanicRecord.
pub fn guard<T>(f: impl FnOnce() -> T) -> Result<T, PanicRecord> {
    LAST_PANIC.with(|p| *p.borrow_mut() = None);
    match std::panic::catch_unwind(std::panic::AssertUnwindSafe(f)) {
        Ok(v) => Ok(v),
        Err(_) => Err(LAST_PANIC.with(|p| p.borrow_mut().take()).unwrap_or(PanicRecord {
            file: "?".into(),
            line: 0,
            msg: "panic without record".into(),
        })),
    }
}

#[derive(Default)]
pub struct Report {
    pub evaluations: u64,
    pub nontrivial: BTreeSet<u64>,
    pub samples: Vec<J>,
    pub counters: BTreeMap<String, f64>,
    pub maxima: BTreeMap<String, f64>,
    pub sets: BTreeMap<String, BTreeSet<String>>,
    pub violations: Vec<J>,
    pub inconclusive: Vec<String>,
    pub exhaustive_subs: Vec<String>,
}

pub struct Ctx {
    pub prop: String,
    pub tier: Tier,
    pub seed: u64,
    pub shard: usize,
    pub nshards: usize,
    pub scale: f64,
    pub out_dir: PathBuf,
    pub repo: PathBuf,
    pub rep: Report,
    log: Option<std::fs::File>,
    pub replay: Option<(String, u64)>,
    pub only_sub: Option<String>,
    /// continue after the case (sub, idx) of a shard run that died there
    pub resume_after: Option<(String, u64)>,
    resumed: bool,
    pub cur_sub: String,
    pub cur_idx: u64,
    pub verbose: bool,
    samples_per_sub: BTreeMap<String, usize>,
    viol_per_sig: BTreeMap<String, usize>,
}

impl Ctx {
    #[allow(clippy::too_many_arguments)]
    pub fn new(
        prop: &str,
        tier: Tier,
        seed: u64,
        shard: usize,
        nshards: usize,
        scale: f64,
        out_dir: PathBuf,
        repo: PathBuf,
    ) -> Self {
        std::fs::create_dir_all(&out_dir).ok();
        let log = std::fs::File::create(out_dir.join(format!("shard-{}.log", shard))).ok();
        Ctx {
            prop: prop.to_string(),
            tier,
            seed,
            shard,
            nshards,
            scale,
            out_dir,
            repo,
            rep: Report::default(),
            log,
            replay: None,
            only_sub: None,
            resume_after: None,
            resumed: false,
            cur_sub: String::new(),
            cur_idx: 0,
            verbose: false,
            samples_per_sub: BTreeMap::new(),
            viol_per_sig: BTreeMap::new(),
        }
    }

    pub fn quick(&self) -> bool {
        self.tier == Tier::Quick
    }

    /// number of cases for the tier, scaled
    pub fn n(&self, quick: usize, thorough: usize) -> usize {
        let base = if self.quick() { quick } else { thorough } as f64;
        ((base * self.scale).ceil() as usize).max(1)
    }

    pub fn tmp_path(&self, name: &str) -> PathBuf {
        self.out_dir.join(format!("tmp-{}-{}", self.shard, name))
    }

    fn logline(&mut self, s: &str) {
        if let Some(f) = self.log.as_mut() {
            let _ = writeln!(f, "{}", s);
        }
    }

    /// Run `n` cases of sub-workload `sub`; this shard takes idx % nshards == shard.
    /// `enumerated`: the idx itself defines the case (seed-independent sub-space).
    pub fn run_cases<F>(&mut self, sub: &str, n: usize, enumerated: bool, mut f: F)
    where
        F: FnMut(&mut Ctx, &mut Rng, usize),
    {
        if let Some(only) = &self.only_sub {
            if only != sub {
                return;
            }
        }
        if let Some((rsub, _)) = &self.replay {
            if rsub != sub {
                return;
            }
        }
        let mut skip_upto: Option<u64> = None;
        if let Some((rsub, ridx)) = &self.resume_after {
            if !self.resumed {
                if rsub != sub {
                    return; // this whole sub-workload ran before the shard died
                }
                skip_upto = Some(*ridx);
                self.resumed = true;
            }
        }
        self.cur_sub = sub.to_string();
        let hs = hash_str(sub);
        let hp = hash_str(&self.prop);
        for idx in 0..n {
            if let Some((_, ridx)) = &self.replay {
                if *ridx != idx as u64 {
                    continue;
                }
            } else if idx % self.nshards != self.shard {
                continue;
            }
            if let Some(k) = skip_upto {
                if idx as u64 <= k {
                    continue;
                }
            }
            self.cur_idx = idx as u64;
            let s = if enumerated { 0 } else { self.seed };
            let mut rng = Rng::new(mix(&[s, hp, hs, idx as u64]));
            self.logline(&format!("BEGIN {} {}", sub, idx));
            self.rep.evaluations += 1;
            case_begin(&format!("{}/{}", sub, idx));
            // one case in three: unrelated objects render on this thread first (see pollute.rs)
            // (about a hundred times per sub-workload and shard where cases are cheap and many)
            let every = (n / self.nshards.max(1) / 100).max(3);
            if (idx / self.nshards) % every == 1 {
                crate::pollute::other_objects_render(&self.repo, idx as u64);
            }
            let r = guard(|| f(self, &mut rng, idx));
            case_end();
            if let Err(p) = r {
                if p.in_target() {
                    let sig = p.sig();
                    self.violation(
                        &sig,
                        J::obj()
                            .set("what", "panic inside the code under observation")
                            .set("file", p.file.clone())
                            .set("line", p.line as i64)
                            .set("message", p.msg.clone()),
                    );
                } else {
                    self.inconclusive(&format!(
                        "harness panic at {}:{}: {} (sub={} idx={})",
                        p.file, p.line, p.msg, sub, idx
                    ));
                }
            }
            self.logline(&format!("END {} {}", sub, idx));
        }
        if enumerated && self.replay.is_none() && !self.rep.exhaustive_subs.iter().any(|s| s == sub)
        {
            self.rep.exhaustive_subs.push(sub.to_string());
        }
    }

    pub fn violation(&mut self, sig: &str, detail: J) {
        self.count(&format!("violations[{}]", sig), 1.0);
        let c = self.viol_per_sig.entry(sig.to_string()).or_insert(0);
        *c += 1;
        if *c > 3 {
            return; // keep at most 3 witnesses per signature per shard
        }
        let v = J::obj()
            .set("sig", sig)
            .set("sub", self.cur_sub.clone())
            .set("idx", self.cur_idx)
            .set("seed", self.seed)
            .set("detail", detail);
        if self.verbose || self.replay.is_some() {
            eprintln!("VIOLATION-DETAIL {}", v);
        }
        self.rep.violations.push(v);
    }

    pub fn inconclusive(&mut self, why: &str) {
        if self.rep.inconclusive.len() < 20 {
            self.rep.inconclusive.push(why.to_string());
        }
        self.count("inconclusive", 1.0);
    }

    pub fn nontrivial(&mut self, key: u64) {
        self.rep.nontrivial.insert(key);
    }
    pub fn count(&mut self, k: &str, v: f64) {
        *self.rep.counters.entry(k.to_string()).or_insert(0.0) += v;
    }
    pub fn max(&mut self, k: &str, v: f64) {
        let e = self.rep.maxima.entry(k.to_string()).or_insert(f64::NEG_INFINITY);
        if v > *e || e.is_nan() {
            *e = v;
        }
    }
    pub fn setadd(&mut self, k: &str, item: &str) {
        let s = self.rep.sets.entry(k.to_string()).or_default();
        if s.len() < 5000 {
            s.insert(item.to_string());
        }
    }
    /// keep the first two samples of each sub-workload (shard 0 only, to bound size)
    pub fn sample(&mut self, j: J) {
        let c = self.samples_per_sub.entry(self.cur_sub.clone()).or_insert(0);
        if *c < 2 && (self.shard == 0 || self.replay.is_some()) {
            *c += 1;
            let j = J::obj()
                .set("sub", self.cur_sub.clone())
                .set("idx", self.cur_idx)
                .set("case", j);
            self.rep.samples.push(j);
        }
    }
    pub fn want_sample(&self) -> bool {
        (self.shard == 0 || self.replay.is_some())
            && self.samples_per_sub.get(&self.cur_sub).copied().unwrap_or(0) < 2
    }

    pub fn finish(&mut self) -> J {
        let r = std::mem::take(&mut self.rep);
        let mut o = J::obj()
            .set("property", self.prop.clone())
            .set("shard", self.shard)
            .set("nshards", self.nshards)
            .set("seed", self.seed)
            .set("evaluations", r.evaluations)
            .set(
                "nontrivial",
                J::Arr(r.nontrivial.iter().map(|h| J::Str(format!("{:016x}", h))).collect()),
            )
            .set("samples", J::Arr(r.samples))
            .set(
                "counters",
                J::Obj(r.counters.into_iter().map(|(k, v)| (k, J::Num(v))).collect()),
            )
            .set(
                "maxima",
                J::Obj(r.maxima.into_iter().map(|(k, v)| (k, J::Num(v))).collect()),
            )
            .set(
                "sets",
                J::Obj(
                    r.sets
                        .into_iter()
                        .map(|(k, v)| (k, J::Arr(v.into_iter().map(J::Str).collect())))
                        .collect(),
                ),
            )
            .set("violations", J::Arr(r.violations))
            .set(
                "inconclusive",
                J::Arr(r.inconclusive.into_iter().map(J::Str).collect()),
            );
        o.put(
            "exhaustive_subs",
            J::Arr(r.exhaustive_subs.into_iter().map(J::Str).collect()),
        );
        o
    }
}
