pub mod alignlaw;
pub mod alloc;
pub mod ctx;
pub mod env;
pub mod json;
pub mod labels;
pub mod refimpl;
#[cfg(any(feature = "c06", feature = "c13", feature = "c14"))]
pub mod pulse;
pub mod rng;
pub mod synth;
pub mod voicegen;
pub mod voiceread;
pub mod mon;
#[cfg(feature = "all")]
pub mod pollute;
/// (a build with a single monitor is the fallback for trees whose public API changed: nothing
/// outside that monitor may depend on the API, so the unrelated objects stay away)
#[cfg(not(feature = "all"))]
pub mod pollute {
    pub fn other_objects_render(_repo: &std::path::Path, _salt: u64) {}
}

#[global_allocator]
static GLOBAL: alloc::Counting = alloc::Counting;
