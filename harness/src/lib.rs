pub fn hello() {}
