pub mod alignlaw;
pub mod alloc;
pub mod ctx;
pub mod env;
pub mod json;
pub mod labels;
pub mod refimpl;
#[cfg(any(feature = "c06", feature = "c13", feature = "c14"))]
pub mod pulse;
pub mod rng;
pub mod synth;
pub mod voicegen;
pub mod voiceread;
pub mod mon;
pub mod pollute;

#[global_allocator]
static GLOBAL: alloc::Counting = alloc::Counting;
