//! scratch probe (not part of any check)
use jbonsai::vocoder::Vocoder;
fn main() {
    let w = [0.03419000741601805,0.06867138779859486,0.10285970840426936,0.13755138936399675,2.0327317411685946,2.0726743287316767,2.114997924707356,2.1498712953793153,2.1849057936105,2.2208790987253795,2.2576280278499157,2.291957804412935,2.3422162118794727,2.377004446634067,2.4193112299216994,2.4536328655017736,2.4878147594860534,2.5343184776443533,2.635436942605328,2.672948127443543,2.7731405132656075,2.984301575942549];
    let args: Vec<String> = std::env::args().collect();
    let stage: usize = args.get(1).map(|s| s.parse().unwrap()).unwrap_or(3);
    let alpha: f64 = args.get(2).map(|s| s.parse().unwrap()).unwrap_or(0.31);
    for rate in [44100usize, 48000, 86543, 96000, 192000] {
        let p = rate / 20;
        let mut spec = vec![4.320687186173954f64.ln()];
        spec.extend(&w);
        let voc = Vocoder::new(w.len() + 1, 0, stage, true, rate, alpha, 0.0, 1.0, p);
        let st = jbv::pulse::steady_state(voc, &spec, p, 96, 1e-11);
        let d: Vec<String> = st.diffs.iter().map(|x| format!("{:.2e}", x)).collect();
        println!("rate {} p {} conv {} frames {} peak {:.3e} growing {}\n  diffs {}", rate, p, st.converged, st.frames_used, st.peak, st.growing(), d.join(" "));
    }
}
