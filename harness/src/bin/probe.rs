//! scratch probe (not part of any check)
fn main() {
    println!("jbv probe: nothing to probe at the moment");
}
