//! scratch probe (not part of any check)
use jbonsai::vocoder::Vocoder;
use jbv::pulse::LN20;
fn main() {
    let args: Vec<String> = std::env::args().collect();
    let w: Vec<f64> = std::fs::read_to_string(&args[1]).unwrap().split_whitespace().map(|x| x.parse().unwrap()).collect();
    let stage: usize = args[2].parse().unwrap();
    let alpha: f64 = args[3].parse().unwrap();
    let gain: f64 = args[4].parse().unwrap();
    let rate: usize = args[5].parse().unwrap();
    let m = w.len();
    let mut spec = vec![gain];
    spec.extend(&w);
    let p = rate / 20;
    let mut voc = Vocoder::new(m + 1, 0, stage, false, rate, alpha, 0.0, 1.0, p);
    let mut buf = vec![0.0; p];
    let mut peaks = vec![];
    for _ in 0..8 {
        voc.synthesize(LN20, &spec, &[], &mut buf);
        peaks.push(buf.iter().fold(0.0f64, |a, x| a.max(x.abs())));
    }
    println!("stage {} peaks {:?}", stage, peaks.iter().map(|x| format!("{:.3e}", x)).collect::<Vec<_>>());
}
