//! scratch probe (not part of any check)
use jbonsai::model::voice::question::Question;
fn main() {
    let corpus = jbv::labels::Corpus::load(std::path::Path::new("/repo"));
    let cands = [
        "*+o=N/A:*", "*=a/A:-?+*", "*-a+*=*/A:0+*", "*/A:*+1+*/B:*", "*^k-*+*=o/*", "*-o+*=*/A:-1+*", "*=?/A:xx+*", "*_xx/K:1?+*",
        "*/F:?_1#*@1_*", "*-pau+*=*/A:xx*", "*+sh=i/A:*", "?^*-a+*", "*^?-*+?=*", "*-N+*", "*/K:19+49-*",
    ];
    for c in cands {
        let q = Question::parse(&[c]);
        let kind = match &q {
            Ok(Question::Regex(_)) => "REGEX",
            Ok(_) => "fast",
            Err(_) => "ERR",
        };
        let mut yes = 0;
        if let Ok(q) = &q {
            for l in &corpus.labels {
                if q.test(l) {
                    yes += 1;
                }
            }
        }
        let wc = corpus.lines.iter().filter(|l| jbv::refimpl::wildcard(c, l)).count();
        println!("{:<22} {:<6} yes={} wildcard={}", c, kind, yes, wc);
    }
}
