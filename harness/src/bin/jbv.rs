use jbv::ctx::{install_panic_hook, Ctx, Tier};
use std::path::PathBuf;

fn main() {
    let args: Vec<String> = std::env::args().collect();
    if args.len() < 2 {
        eprintln!("usage: jbv <Cxx|selftest> [--tier quick|thorough] [--seed N] [--shard i] [--nshards n] [--out DIR] [--repo DIR] [--scale F] [--sub NAME] [--replay SUB IDX] [-v]");
        std::process::exit(2);
    }
    let prop = args[1].clone();
    let mut tier = Tier::Quick;
    let mut seed = 1u64;
    let mut shard = 0usize;
    let mut nshards = 1usize;
    let mut out = PathBuf::from("/tmp/jbv-out");
    let mut repo = PathBuf::from("/repo");
    let mut scale = 1.0f64;
    let mut sub: Option<String> = None;
    let mut replay: Option<(String, u64)> = None;
    let mut resume: Option<(String, u64)> = None;
    let mut verbose = false;
    let mut i = 2;
    while i < args.len() {
        let a = args[i].as_str();
        let val = |i: usize| args.get(i + 1).cloned().unwrap_or_else(|| { eprintln!("missing value for {}", a); std::process::exit(2) });
        match a {
            "--tier" => { tier = if val(i) == "thorough" { Tier::Thorough } else { Tier::Quick }; i += 1 }
            "--seed" => { seed = val(i).parse().expect("seed"); i += 1 }
            "--shard" => { shard = val(i).parse().expect("shard"); i += 1 }
            "--nshards" => { nshards = val(i).parse().expect("nshards"); i += 1 }
            "--out" => { out = PathBuf::from(val(i)); i += 1 }
            "--repo" => { repo = PathBuf::from(val(i)); i += 1 }
            "--scale" => { scale = val(i).parse().expect("scale"); i += 1 }
            "--sub" => { sub = Some(val(i)); i += 1 }
            "--replay" => { let s = val(i); let k = args.get(i + 2).expect("replay idx").parse().expect("idx"); replay = Some((s, k)); i += 2 }
            "--resume-after" => { let s = val(i); let k = args.get(i + 2).expect("resume idx").parse().expect("idx"); resume = Some((s, k)); i += 2 }
            "-v" => verbose = true,
            _ => { eprintln!("unknown argument {}", a); std::process::exit(2) }
        }
        i += 1;
    }
    install_panic_hook();
    jbv::ctx::start_case_watchdog();
    let mut ctx = Ctx::new(&prop, tier, seed, shard, nshards, scale, out.clone(), repo);
    ctx.only_sub = sub;
    ctx.replay = replay;
    ctx.resume_after = resume;
    ctx.verbose = verbose;
    let known = jbv::mon::dispatch(&mut ctx);
    if !known {
        eprintln!("unknown property {}", prop);
        std::process::exit(2);
    }
    let nviol = ctx.rep.violations.len();
    let ninc = ctx.rep.inconclusive.len();
    let j = ctx.finish();
    let path = out.join(format!("shard-{}.json", shard));
    std::fs::write(&path, format!("{}\n", j)).expect("write shard result");
    if verbose || ctx.replay.is_some() {
        println!("{}", j);
    }
    // exit code: 0 ran to completion (violations are reported through the result file)
    if ninc > 0 && nviol == 0 {
        std::process::exit(0);
    }
}
