fn main() {
    let r = std::panic::catch_unwind(|| {
        let e = jbonsai::Engine::load(&["/nonexistent"]);
        println!("{:?}", e.is_err());
        let v: Vec<u8> = vec![];
        let g = jbonsai::speech::SpeechGenerator::new(1, jbonsai::vocoder::Vocoder::new(2,0,0,false,8000,0.0,0.0,1.0,1), vec![vec![0.0;2]], vec![], vec![]);
        drop((v,g));
    });
    println!("{:?}", r.is_err());
}
