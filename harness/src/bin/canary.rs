//! Deliberately broken snippets: each sanitizer / interpreter layer must report its canary,
//! otherwise the layer is inconclusive (not "clean").
use std::hint::black_box;

static mut COUNTER: u64 = 0;

fn main() {
    let mode = std::env::args().nth(1).unwrap_or_default();
    match mode.as_str() {
        "asan" => {
            // heap out-of-bounds read through a raw pointer
            let v: Vec<u8> = vec![1, 2, 3, 4];
            let p = black_box(v.as_ptr());
            let x = unsafe { std::ptr::read_volatile(p.add(black_box(7))) };
            println!("read {}", x);
        }
        "tsan" | "miri" => {
            // unsynchronised read-modify-write of a static from two threads
            let t: Vec<_> = (0..2)
                .map(|_| {
                    std::thread::spawn(|| {
                        for _ in 0..20000 {
                            unsafe {
                                let p = std::ptr::addr_of_mut!(COUNTER);
                                p.write(p.read() + 1);
                            }
                        }
                    })
                })
                .collect();
            for h in t {
                h.join().unwrap();
            }
            println!("counter {}", unsafe { std::ptr::addr_of!(COUNTER).read() });
        }
        _ => {
            eprintln!("usage: canary asan|tsan|miri");
            std::process::exit(2);
        }
    }
}
