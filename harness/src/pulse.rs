//! Pulse-response measurement through the public Vocoder (C06, C13, C14).
//!
//! F0 = 20 Hz gives a pulse train of period p = rate/20 samples and height sqrt(p):
//! pulses at sample 0, p-1, 2p-1, ... With a constant spectrum the output becomes
//! periodic; one period is sqrt(p) * sum_k h[n + k p], whose p-point DFT equals
//! sqrt(p) * H at the harmonics 2*pi*j/p exactly (no truncation error).

use jbonsai::vocoder::Vocoder;

pub const LN20: f64 = 2.995_732_273_553_991;

#[derive(Clone, Debug)]
pub struct Steady {
    pub p: usize,
    pub period: Vec<f64>,
    pub frames_used: usize,
    pub converged: bool,
    pub decayed: bool,
    pub finite: bool,
    pub peak: f64,
    /// max abs difference between successive periods, per frame (trend of convergence)
    pub diffs: Vec<f64>,
    /// the first frame without its last sample: the response to the very first pulse alone
    pub first: Vec<f64>,
    /// that response has died away before the second pulse (sample p-1)
    pub first_decayed: bool,
}

/// `voc` must have been created with fperiod == p and rate == 20 * p.
pub fn steady_state(mut voc: Vocoder, spectrum: &[f64], p: usize, max_frames: usize, tol: f64) -> Steady {
    let mut out: Vec<f64> = Vec::with_capacity(p * max_frames);
    let mut buf = vec![0.0; p];
    let mut converged = false;
    let mut frames_used = 0;
    let mut finite = true;
    let mut diffs: Vec<f64> = Vec::new();
    for k in 0..max_frames {
        voc.synthesize(LN20, spectrum, &[], &mut buf);
        out.extend_from_slice(&buf);
        frames_used = k + 1;
        if buf.iter().any(|x| !x.is_finite()) {
            finite = false;
            break;
        }
        if k >= 2 {
            // latest complete period [kp-1, (k+1)p-1) against the one before it
            let a = &out[k * p - 1..(k + 1) * p - 1];
            let b = &out[(k - 1) * p - 1..k * p - 1];
            let peak = a.iter().fold(0.0f64, |m, x| m.max(x.abs()));
            let d = a.iter().zip(b).fold(0.0f64, |m, (x, y)| m.max((x - y).abs()));
            diffs.push(d);
            if d <= tol * peak {
                converged = true;
                break;
            }
        }
    }
    let k = frames_used;
    let period: Vec<f64> = if finite && k >= 2 {
        out[(k - 1) * p - 1..k * p - 1].to_vec()
    } else {
        out.clone()
    };
    let peak = period.iter().fold(0.0f64, |m, x| m.max(x.abs()));
    let tail = period[period.len() - period.len() / 10..]
        .iter()
        .fold(0.0f64, |m, x| m.max(x.abs()));
    let first: Vec<f64> = out.iter().take(p - 1).cloned().collect();
    let fpeak = first.iter().fold(0.0f64, |m, x| m.max(x.abs()));
    let ftail = first[first.len() - first.len() / 10..].iter().fold(0.0f64, |m, x| m.max(x.abs()));
    let first_decayed = finite && first.iter().all(|x| x.is_finite()) && ftail <= 1e-10 * fpeak && fpeak > 0.0;
    Steady { p, period, frames_used, converged, decayed: finite && tail <= 1e-9 * peak, finite, peak, diffs, first, first_decayed }
}

impl Steady {
    /// the period-to-period difference keeps growing (by > 4x over the last 4 frames compared
    /// with the 4 before): the response is not settling
    pub fn growing(&self) -> bool {
        let n = self.diffs.len();
        if n < 8 {
            return false;
        }
        let last: f64 = self.diffs[n - 4..].iter().sum();
        let prev: f64 = self.diffs[n - 8..n - 4].iter().sum();
        last > 4.0 * prev && last.is_finite()
    }
    /// no two successive periods of the last eight agree even to 1e-6 of the peak: the output
    /// does not repeat at all (as opposed to repeating down to a slowly decaying tail, which
    /// happens when rate/20 is not an integer and the pulse moves by one sample every other frame)
    pub fn never_repeats(&self) -> bool {
        let n = self.diffs.len();
        n >= 8 && self.diffs[n - 8..].iter().all(|d| *d > 1e-6 * self.peak)
    }
    /// ln|H| at harmonic j (angular frequency 2*pi*j/p)
    pub fn log_mag(&self, j: usize) -> f64 {
        let w = 2.0 * std::f64::consts::PI * j as f64 / self.p as f64;
        crate::refimpl::log_mag(&self.period, w) - 0.5 * (self.p as f64).ln()
    }
    pub fn omega(&self, j: usize) -> f64 {
        2.0 * std::f64::consts::PI * j as f64 / self.p as f64
    }
    /// harmonic indices: about `n` of them spread over [0, pi]
    pub fn harmonics(&self, n: usize) -> Vec<usize> {
        let half = self.p / 2;
        let n = n.min(half + 1).max(2);
        let mut v: Vec<usize> = (0..n).map(|i| i * half / (n - 1)).collect();
        v.dedup();
        v
    }
    /// ln|H| of the first-pulse response at angular frequency w (meaningful when `first_decayed`)
    pub fn first_log_mag(&self, w: f64) -> f64 {
        crate::refimpl::log_mag(&self.first, w) - 0.5 * (self.p as f64).ln()
    }
    /// energy of the impulse response (only meaningful when `decayed`)
    pub fn energy(&self) -> f64 {
        self.period.iter().map(|x| x * x).sum::<f64>() / self.p as f64
    }
}
