//! Synthetic .htsvoice writer (workload side). Keeps its own ground truth (the spec).

use crate::rng::Rng;
use crate::voiceread::{RefChild, RefVoice};
use std::collections::BTreeMap;

#[derive(Clone, Debug)]
pub enum NodeSpec {
    Leaf(usize),
    Node { q: String, no: Box<NodeSpec>, yes: Box<NodeSpec> },
}

#[derive(Clone, Debug)]
pub struct TreeSpec {
    pub state: usize,
    pub root: NodeSpec,
    pub nleaves: usize,
}

#[derive(Clone, Debug, Default)]
pub struct ModelSpec {
    pub leaf_prefix: String,
    pub questions: Vec<(String, Vec<String>)>,
    pub trees: Vec<TreeSpec>,
    /// pdfs[tree][leaf id - 1]
    pub pdfs: Vec<Vec<Vec<f32>>>,
    pub pdf_len: usize,
}

#[derive(Clone, Debug)]
pub struct StreamSpec {
    pub name: String,
    pub vector_length: usize,
    pub is_msd: bool,
    pub use_gv: bool,
    pub options: Vec<String>,
    pub windows: Vec<Vec<f64>>,
    pub model: ModelSpec,
    pub gv: Option<ModelSpec>,
}

#[derive(Clone, Debug)]
pub struct VoiceSpec {
    pub version: String,
    pub sampling_frequency: usize,
    pub frame_period: usize,
    pub num_states: usize,
    pub fullcontext_format: String,
    pub fullcontext_version: String,
    pub gv_off_context: Vec<String>,
    pub duration: ModelSpec,
    pub streams: Vec<StreamSpec>,
    /// formatting knobs
    pub quote_mode: u8, // 0 = all quoted, 1 = all unquoted, 2 = mixed
    pub opts: VoiceOpts,
}

#[derive(Clone, Debug)]
pub struct VoiceOpts {
    pub nstreams: usize,
    pub nstate: usize,
    pub stage: usize,
    pub ln_gain: bool,
    pub mcp_len: usize,
    pub lpf_len: usize,
    pub win_mcp: usize, // window-set id 0..=4
    pub win_lf0: usize,
    pub gv_mcp: bool,
    pub gv_lf0: bool,
    pub rate: usize,
    pub fperiod: usize,
    pub alpha: f64,
    pub max_depth: usize,
    pub transparent: bool,
    pub quote_mode: u8,
    pub regex_root: bool,
    pub dur_scale: f64,
    pub shape: f64, // bound on sum_{m>=1} |c_m| of static spectral means
    /// window ranges in [POSITION] end at the last digit (the separating newline is outside)
    pub win_tight: bool,
    /// node lines of a tree are written out of id order (every node still after the root)
    pub shuffle_nodes: bool,
    /// root questions of the duration / spectrum / F0 trees are regex-fallback patterns whose
    /// answer differs between corpus labels (not from the bundled voice; used by C03)
    pub varying_regex_root: bool,
    /// the duration tree is a chain with exactly this many leaves (the first data byte is the
    /// low byte of that count)
    pub dur_leaves: Option<usize>,
    /// rotation applied to the option list of the spectrum stream (the header may list the
    /// options in any order; voices of one set must agree, so this is part of the shape)
    pub opt_order: usize,
    /// the trees of every stream model (and with them their PDF blocks) are written in
    /// descending state order: a PDF block belongs to the tree at the same *position*
    pub trees_reversed: bool,
    /// vector length of the (MSD) log-F0 stream; 1 in every real voice, but the format allows more
    /// (the engine reads component 0)
    pub lf0_vlen: usize,
    /// the third (low-pass) stream has a GV model as well
    pub gv_lpf: bool,
    /// the static window of the low-pass stream is written zero-padded ("3 0.0 1.0 0.0")
    pub lpf_win_padded: bool,
}

pub const WINDOW_SETS: [&[&[f64]]; 10] = [
    &[&[1.0]],
    &[&[1.0], &[-0.5, 0.0, 0.5]],
    &[&[1.0], &[-0.5, 0.0, 0.5], &[1.0, -2.0, 1.0]],
    &[&[1.0], &[-0.2, -0.1, 0.0, 0.1, 0.2], &[0.285714, -0.142857, -0.285714, -0.142857, 0.285714]],
    &[&[1.0], &[-0.5, 0.0, 0.5], &[0.25, 0.0, -0.5, 0.0, 0.25]],
    // the widest window is not the last one
    &[&[1.0], &[-0.2, -0.1, 0.0, 0.1, 0.2], &[1.0, -2.0, 1.0]],
    // every dynamic window is 5 taps wide with a zero centre tap: W'U^-1W then has entries that
    // are exactly zero and fill in during the factorisation
    &[&[1.0], &[-0.2, -0.1, 0.0, 0.1, 0.2]],
    &[&[1.0], &[-0.2, -0.1, 0.0, 0.1, 0.2], &[0.25, 0.0, -0.5, 0.0, 0.25]],
    // dynamic windows written at a common width: exact zeros at both ends (the width in the file
    // is the width; the outer frames still count as read)
    &[&[1.0], &[0.0, -0.5, 0.0, 0.5, 0.0], &[0.0, 0.0, 1.0, -2.0, 1.0, 0.0, 0.0]],
    // an asymmetric (backward-difference) delta written at width 3: zero-ended on one side only
    &[&[1.0], &[-1.0, 1.0, 0.0], &[1.0, -2.0, 1.0]],
];

/// ids 0..9 are the sets above; id + 10 (+ 20) is the same set with the static window written
/// with one (two) exact zeros on either side: [0, 1, 0] means the same as [1]
pub fn window_set(id: usize) -> Vec<Vec<f64>> {
    let mut set: Vec<Vec<f64>> = WINDOW_SETS[id % 10].iter().map(|w| w.to_vec()).collect();
    let pad = id / 10;
    if pad > 0 {
        let mut w = vec![0.0; pad];
        w.extend(&set[0]);
        w.extend(vec![0.0; pad]);
        set[0] = w;
    }
    set
}

fn window_pick(rng: &mut Rng) -> usize {
    rng.below(10) + if rng.chance(0.12) { 10 * rng.range(1, 2) } else { 0 }
}

impl VoiceOpts {
    pub fn random(rng: &mut Rng) -> VoiceOpts {
        let stage = if rng.chance(0.35) { rng.range(1, 3) } else { 0 };
        VoiceOpts {
            nstreams: if rng.chance(0.4) { 2 } else { 3 },
            nstate: rng.range(1, 7),
            stage,
            ln_gain: rng.chance(0.5),
            mcp_len: rng.range(2, 10),
            lpf_len: 2 * rng.range(0, 7) + 1,
            win_mcp: window_pick(rng),
            win_lf0: window_pick(rng),
            gv_mcp: rng.chance(0.5),
            gv_lf0: rng.chance(0.5),
            rate: *rng.pick(&[8000usize, 16000, 22050, 44100, 48000]),
            fperiod: *rng.pick(&[20usize, 40, 80, 120, 240]),
            alpha: *rng.pick(&[0.0, 0.31, 0.42, 0.55]),
            max_depth: rng.range(0, 4),
            transparent: false,
            quote_mode: rng.below(3) as u8,
            regex_root: rng.chance(0.1),
            dur_scale: *rng.pick(&[1.0, 1.0, 3.0]),
            shape: 1.0,
            win_tight: rng.chance(0.4),
            shuffle_nodes: rng.chance(0.4),
            varying_regex_root: false,
            dur_leaves: if rng.chance(0.15) { Some(*rng.pick(&[10usize, 10, 13, 32, 9, 70, 100])) } else { None },
            opt_order: rng.below(6),
            trees_reversed: rng.chance(0.25),
            lf0_vlen: 1,
            gv_lpf: rng.chance(0.1),
            lpf_win_padded: rng.chance(0.1),
        }
    }
    /// small and fast: for interpreters (Miri) and exhaustive histories
    pub fn tiny() -> VoiceOpts {
        VoiceOpts {
            nstreams: 2,
            nstate: 1,
            stage: 0,
            ln_gain: false,
            mcp_len: 3,
            lpf_len: 1,
            win_mcp: 1,
            win_lf0: 1,
            gv_mcp: false,
            gv_lf0: false,
            rate: 8000,
            fperiod: 4,
            alpha: 0.3,
            max_depth: 1,
            transparent: false,
            quote_mode: 0,
            regex_root: false,
            dur_scale: 0.3,
            shape: 1.0,
            win_tight: false,
            shuffle_nodes: false,
            varying_regex_root: false,
            dur_leaves: None,
            opt_order: 0,
            trees_reversed: false,
            lf0_vlen: 1,
            gv_lpf: false,
            lpf_win_padded: false,
        }
    }
    pub fn describe(&self) -> String {
        format!(
            "streams={} nstate={} stage={} ln_gain={} mcp={} lpf={} win=({},{}) gv=({},{}) rate={} fp={} alpha={} depth={} transparent={} quote={} regex_root={} win_tight={} shuffle_nodes={} opt_order={} trees_reversed={} gv_lpf={} lpf_pad={}",
            self.nstreams, self.nstate, self.stage, self.ln_gain as u8, self.mcp_len, self.lpf_len,
            self.win_mcp, self.win_lf0, self.gv_mcp as u8, self.gv_lf0 as u8, self.rate, self.fperiod,
            self.alpha, self.max_depth, self.transparent as u8, self.quote_mode, self.regex_root as u8, self.win_tight as u8, self.shuffle_nodes as u8, self.opt_order, self.trees_reversed as u8, self.gv_lpf as u8, self.lpf_win_padded as u8
        )
    }
}

/// Pool of real questions (name, patterns), with the ones that need the regex fallback marked.
#[derive(Clone, Debug, Default)]
pub struct QuestionPool {
    pub all: Vec<(String, Vec<String>)>,
    pub regex_fallback: Vec<usize>,
}

/// Patterns that the fast question parser rejects (they span several label fields), so that
/// the regex fallback evaluates them, and that are true for some corpus labels and false for
/// others (checked against the textual wildcard matcher: 73, 361, 28, 94, 177, 1230 of 1456).
pub const VARYING_REGEX_QUESTIONS: [(&str, &str); 6] = [
    ("X-Regex-1", "*=a/A:-?+*"),
    ("X-Regex-2", "*/A:*+1+*/B:*"),
    ("X-Regex-3", "*^k-*+*=o/*"),
    ("X-Regex-4", "*/F:?_1#*@1_*"),
    ("X-Regex-5", "?^*-a+*"),
    ("X-Regex-6", "*^?-*+?=*"),
];

impl QuestionPool {
    pub fn from_voice(v: &RefVoice) -> QuestionPool {
        let mut map: BTreeMap<String, Vec<String>> = BTreeMap::new();
        let mut add = |m: &crate::voiceread::RefModel| {
            for (k, p) in &m.questions {
                map.entry(k.clone()).or_insert_with(|| p.clone());
            }
        };
        add(&v.duration);
        for s in &v.streams {
            add(&s.model);
            if let Some(g) = &s.gv {
                add(g);
            }
        }
        let all: Vec<(String, Vec<String>)> = map.into_iter().collect();
        let mut regex_fallback = Vec::new();
        for (i, (_, pats)) in all.iter().enumerate() {
            let refs: Vec<&str> = pats.iter().map(|s| s.as_str()).collect();
            if let Ok(jbonsai::model::voice::question::Question::Regex(_)) =
                jbonsai::model::voice::question::Question::parse(&refs)
            {
                regex_fallback.push(i);
            }
        }
        QuestionPool { all, regex_fallback }
    }
    /// a handful of synthetic questions when no pool voice is available (Miri)
    pub fn builtin() -> QuestionPool {
        let q = |n: &str, p: &[&str]| (n.to_string(), p.iter().map(|s| s.to_string()).collect::<Vec<_>>());
        QuestionPool {
            all: vec![
                q("C-Phone_Boin", &["*-a+*", "*-i+*", "*-u+*", "*-e+*", "*-o+*"]),
                q("C-Phone_Muon", &["*-sil+*", "*-pau+*"]),
                q("L-Phone_Muon", &["*^sil-*", "*^pau-*"]),
                q("Utt_Len_Mora<=28", &["*-?", "*-1?", "*-20", "*-21", "*-22", "*-23", "*-24", "*-25", "*-26", "*-27", "*-28"]),
                q("C-Mora_diff_Acc-Type<=0", &["*/A:-??+*", "*/A:-?+*", "*/A:0+*"]),
                q("R-Phone_k", &["*+k=*"]),
            ],
            regex_fallback: vec![],
        }
    }
}

fn gen_tree(
    rng: &mut Rng,
    pool: &QuestionPool,
    depth_left: usize,
    next_leaf: &mut usize,
    used: &mut Vec<usize>,
    force_q: Option<usize>,
) -> NodeSpec {
    let stop = depth_left == 0 || (force_q.is_none() && rng.chance(0.25));
    if stop {
        *next_leaf += 1;
        return NodeSpec::Leaf(*next_leaf);
    }
    let qi = force_q.unwrap_or_else(|| {
        // prefer phoneme-level questions half of the time so that both branches are reachable
        rng.below(pool.all.len())
    });
    if !used.contains(&qi) {
        used.push(qi);
    }
    let no = gen_tree(rng, pool, depth_left - 1, next_leaf, used, None);
    let yes = gen_tree(rng, pool, depth_left - 1, next_leaf, used, None);
    NodeSpec::Node { q: pool.all[qi].0.clone(), no: Box::new(no), yes: Box::new(yes) }
}

fn renumber(node: &mut NodeSpec, perm: &[usize]) {
    match node {
        NodeSpec::Leaf(id) => *id = perm[*id - 1],
        NodeSpec::Node { no, yes, .. } => {
            renumber(no, perm);
            renumber(yes, perm);
        }
    }
}

/// Two branches of a tree may name the same PDF: in every tree with three or more leaves the
/// leaf that names PDF 2 is made to name PDF 1 (PDF 2 stays in the table, unused; the leaves
/// with larger numbers keep theirs). No random choice involved.
fn share_leaves(m: &mut ModelSpec) {
    fn walk(n: &mut NodeSpec) {
        match n {
            NodeSpec::Leaf(id) => {
                if *id == 2 {
                    *id = 1;
                }
            }
            NodeSpec::Node { no, yes, .. } => {
                walk(no);
                walk(yes);
            }
        }
    }
    for t in m.trees.iter_mut() {
        if t.nleaves >= 3 {
            walk(&mut t.root);
        }
    }
}

#[allow(clippy::too_many_arguments)]
fn gen_model(
    rng: &mut Rng,
    pool: &QuestionPool,
    prefix: &str,
    states: &[usize],
    pdf_len: usize,
    max_depth: usize,
    regex_root: bool,
    extra_root: Option<&[(String, Vec<String>)]>,
    mut fill: impl FnMut(&mut Rng, usize) -> Vec<f32>,
) -> ModelSpec {
    let mut used = Vec::new();
    let mut trees = Vec::new();
    let mut pdfs = Vec::new();
    for (ti, &state) in states.iter().enumerate() {
        let mut nleaf = 0;
        let depth = if max_depth == 0 { 0 } else { rng.range(0, max_depth) };
        let force = if regex_root && depth > 0 && !pool.regex_fallback.is_empty() {
            Some(*rng.pick(&pool.regex_fallback))
        } else {
            None
        };
        let mut root = gen_tree(rng, pool, depth, &mut nleaf, &mut used, force);
        if let Some(extra) = extra_root {
            // put a question with label-dependent regex-fallback answer above the generated tree
            let (name, _) = &extra[ti % extra.len()];
            nleaf += 1;
            let other = NodeSpec::Leaf(nleaf);
            root = if ti % 2 == 0 {
                NodeSpec::Node { q: name.clone(), no: Box::new(root), yes: Box::new(other) }
            } else {
                NodeSpec::Node { q: name.clone(), no: Box::new(other), yes: Box::new(root) }
            };
        }
        // a tree that is a single leaf need not name the first PDF of its table (the table may
        // hold more PDFs than the tree uses)
        if nleaf == 1 && rng.chance(0.5) {
            nleaf += rng.range(1, 3);
        }
        // leaf ids are a random permutation of 1..=n (the file need not list them in order)
        let mut perm: Vec<usize> = (1..=nleaf).collect();
        rng.shuffle(&mut perm);
        renumber(&mut root, &perm);
        trees.push(TreeSpec { state, root, nleaves: nleaf });
        pdfs.push((0..nleaf).map(|_| fill(rng, ti)).collect::<Vec<_>>());
    }
    // a couple of unused questions as well (real files define more than they use)
    for _ in 0..rng.below(3) {
        let qi = rng.below(pool.all.len());
        if !used.contains(&qi) {
            used.push(qi);
        }
    }
    used.sort();
    let mut questions: Vec<(String, Vec<String>)> = used.iter().map(|&i| pool.all[i].clone()).collect();
    if let Some(extra) = extra_root {
        questions.extend(extra.iter().cloned());
    }
    ModelSpec {
        leaf_prefix: prefix.to_string(),
        questions,
        trees,
        pdfs,
        pdf_len,
    }
}

fn f32r(rng: &mut Rng, lo: f64, hi: f64) -> f32 {
    rng.uniform(lo, hi) as f32
}

pub fn generate(opts: &VoiceOpts, pool: &QuestionPool, rng: &mut Rng) -> VoiceSpec {
    let nstate = opts.nstate;
    let states: Vec<usize> = (2..2 + nstate).collect();
    let dur_scale = opts.dur_scale;
    let extra: Vec<(String, Vec<String>)> = VARYING_REGEX_QUESTIONS.iter().map(|(n, p)| (n.to_string(), vec![p.to_string()])).collect();
    let extra_root: Option<&[(String, Vec<String>)]> = if opts.varying_regex_root { Some(&extra) } else { None };
    let duration = gen_model(rng, pool, "dur_s2_", &[2], nstate * 2, opts.max_depth, false, extra_root, |rng, _| {
        let mut v: Vec<f32> = (0..nstate).map(|_| f32r(rng, 0.3, 9.0) * dur_scale as f32).collect();
        v.extend((0..nstate).map(|_| f32r(rng, 0.2, 12.0)));
        v
    });

    let mut duration = duration;
    if let Some(n) = opts.dur_leaves {
        // chain of n-1 questions: leaf k hangs off the "yes" side of question k
        let mut node = NodeSpec::Leaf(n);
        let mut used: Vec<(String, Vec<String>)> = Vec::new();
        // (a long chain cycles through three questions only, so that a label answering "no" to
        // those three walks the whole chain down to the last leaf)
        let few: Vec<(String, Vec<String>)> = (0..3).map(|_| rng.pick(&pool.all).clone()).collect();
        for k in (1..n).rev() {
            let q = if n >= 64 { few[k % 3].clone() } else { rng.pick(&pool.all).clone() };
            node = NodeSpec::Node { q: q.0.clone(), no: Box::new(node), yes: Box::new(NodeSpec::Leaf(k)) };
            if !used.iter().any(|u| u.0 == q.0) {
                used.push(q);
            }
        }
        duration.trees[0] = TreeSpec { state: 2, root: node, nleaves: n };
        duration.questions = used;
        duration.pdfs[0] = (0..n)
            .map(|_| {
                let mut v: Vec<f32> = (0..nstate).map(|_| f32r(rng, 0.3, 9.0) * dur_scale as f32).collect();
                v.extend((0..nstate).map(|_| f32r(rng, 0.2, 12.0)));
                v
            })
            .collect();
    }

    let mut streams = Vec::new();

    // ---- spectrum
    let wins = window_set(opts.win_mcp);
    let nwin = wins.len();
    let vlen = opts.mcp_len;
    let stage = opts.stage;
    let ln_gain = opts.ln_gain;
    let transparent = opts.transparent;
    let shape = opts.shape;
    let shared = opts.opt_order % 3 == 2;
    let mut mcp_model = gen_model(
        rng,
        pool,
        "mgc_s",
        &states,
        vlen * nwin * 2,
        opts.max_depth,
        opts.regex_root,
        extra_root,
        |rng, _| {
            let mut mean = vec![0f32; vlen * nwin];
            let mut vari = vec![0f32; vlen * nwin];
            if stage == 0 {
                if !transparent {
                    // static: c0 then decaying coefficients with sum |c_m| <= shape
                    mean[0] = f32r(rng, -1.0, 2.0);
                    let mut raw: Vec<f64> = (1..vlen).map(|m| rng.normal() / (m as f64)).collect();
                    let s: f64 = raw.iter().map(|x| x.abs()).sum();
                    let target = rng.uniform(0.2, shape);
                    if s > 0.0 {
                        for x in raw.iter_mut() {
                            *x *= target / s;
                        }
                    }
                    for m in 1..vlen {
                        mean[m] = raw[m - 1] as f32;
                    }
                    for w in 1..nwin {
                        for m in 0..vlen {
                            mean[w * vlen + m] = f32r(rng, -0.02, 0.02);
                        }
                    }
                }
                for m in 0..vlen {
                    vari[m] = f32r(rng, 0.01, 0.3);
                }
                for w in 1..nwin {
                    for m in 0..vlen {
                        vari[w * vlen + m] = f32r(rng, 0.005, 0.1);
                    }
                }
            } else {
                // LSP: [gain, w1..wm], increasing and well separated
                let m = vlen - 1;
                // (linear gains include quiet voices)
                mean[0] = if ln_gain {
                    f32r(rng, -1.0, 1.0)
                } else if opts.opt_order == 2 {
                    f32r(rng, 0.02, 0.3)
                } else {
                    f32r(rng, 0.5, 2.0)
                };
                for i in 1..=m {
                    let w = std::f64::consts::PI * (i as f64 + rng.uniform(-0.2, 0.2)) / (m as f64 + 1.0);
                    mean[i] = w as f32;
                }
                for i in 0..vlen {
                    vari[i] = f32r(rng, 1e-4, 4e-4);
                }
                for w in 1..nwin {
                    for i in 0..vlen {
                        mean[w * vlen + i] = 0.0;
                        vari[w * vlen + i] = f32r(rng, 1e-3, 4e-3);
                    }
                }
            }
            mean.extend(vari);
            mean
        },
    );
    if shared {
        share_leaves(&mut mcp_model);
    }
    // (an all-pass constant of 0 may be left out; keys the engine does not know may be present)
    let mut mcp_opts = if opts.alpha == 0.0 && opts.opt_order % 2 == 0 { vec![] } else { vec![format!("ALPHA={}", opts.alpha)] };
    if opts.opt_order == 3 {
        mcp_opts.push("BETA=0.4".to_string());
    }
    if opts.opt_order == 0 && opts.alpha != 0.0 {
        mcp_opts.push("SPEED=1.5".to_string());
    }
    // (with the mel-cepstral filter the two options may be left out, or be spelled out)
    if stage != 0 || opts.opt_order % 2 == 1 {
        mcp_opts.push(format!("GAMMA={}", stage));
        mcp_opts.push(format!("LN_GAIN={}", ln_gain as u8));
    }
    // the header may list the options in any order
    // (a permutation derived from the voice's shape, so that every relative order of the
    // entries occurs over the voices without touching the random stream)
    if mcp_opts.len() > 1 {
        let mut x = (opts.opt_order * 131 + opts.nstate * 31 + opts.mcp_len * 7 + opts.lpf_len + opts.win_mcp * 3) as u64;
        for i in (1..mcp_opts.len()).rev() {
            x = x.wrapping_mul(6364136223846793005).wrapping_add(1442695040888963407);
            let j = ((x >> 33) as usize) % (i + 1);
            mcp_opts.swap(i, j);
        }
    }
    let gv_mcp = if opts.gv_mcp && !transparent {
        Some(gen_model(rng, pool, "gv_mgc_", &[2], vlen * 2, opts.max_depth.min(2), false, None, |rng, _| {
            let mut v: Vec<f32> = (0..vlen)
                .map(|_| if stage == 0 { f32r(rng, 0.002, 0.03) } else { f32r(rng, 1e-5, 5e-5) })
                .collect();
            v.extend((0..vlen).map(|_| f32r(rng, 1e-5, 1e-3)));
            v
        }))
    } else {
        None
    };
    streams.push(StreamSpec {
        name: "MCP".into(),
        vector_length: vlen,
        is_msd: false,
        use_gv: gv_mcp.is_some(),
        options: mcp_opts,
        windows: wins,
        model: mcp_model,
        gv: gv_mcp,
    });

    // ---- log F0 (MSD)
    let wins = window_set(opts.win_lf0);
    let nwin = wins.len();
    let lv = opts.lf0_vlen.max(1);
    let mut lf0_model = gen_model(rng, pool, "lf0_s", &states, lv * nwin * 2 + 1, opts.max_depth, false, extra_root, |rng, _| {
        let mut v = vec![0f32; lv * nwin * 2 + 1];
        let kind = rng.below(10);
        if kind == 0 {
            // the shape real voices use for unvoiced states
            for j in 0..lv * nwin {
                v[j] = 0.0;
                v[lv * nwin + j] = 1.0;
            }
            v[2 * lv * nwin] = 0.05;
        } else {
            for w in 0..nwin {
                for c in 0..lv {
                    v[w * lv + c] = if w == 0 { f32r(rng, 4.4, 6.0) } else { f32r(rng, -0.03, 0.03) };
                    v[lv * nwin + w * lv + c] = if w == 0 { f32r(rng, 0.002, 0.05) } else { f32r(rng, 0.0005, 0.02) };
                }
            }
            v[2 * lv * nwin] = match rng.below(10) {
                0 => 0.5,
                1 => 0.25,
                2 => 0.75,
                3 => 0.95,
                // the ends of the range: "certainly voiced" and "never voiced"
                4 => 1.0,
                5 => 0.0,
                _ => f32r(rng, 0.02, 0.98),
            };
        }
        v
    });
    if shared {
        share_leaves(&mut lf0_model);
    }
    let gv_lf0 = if opts.gv_lf0 {
        Some(gen_model(rng, pool, "gv_lf0_", &[2], 2, opts.max_depth.min(2), false, extra_root, |rng, _| {
            vec![f32r(rng, 0.005, 0.08), f32r(rng, 1e-5, 1e-3)]
        }))
    } else {
        None
    };
    streams.push(StreamSpec {
        name: "LF0".into(),
        vector_length: lv,
        is_msd: true,
        use_gv: gv_lf0.is_some(),
        // (options on a stream other than the spectrum are the voice author's business: the
        // engine's filter settings come from the spectrum stream alone)
        options: if opts.opt_order == 4 || opts.opt_order == 1 {
            vec!["GAMMA=2".to_string(), "LN_GAIN=1".to_string(), "ALPHA=0.3".to_string()]
        } else {
            vec![]
        },
        windows: wins,
        model: lf0_model,
        gv: gv_lf0,
    });

    // ---- low-pass (optional third stream)
    if opts.nstreams > 2 {
        let n = opts.lpf_len;
        let lpf_model = gen_model(rng, pool, "lpf_s", &states, n * 2, opts.max_depth.min(1), false, None, |rng, _| {
            // a low-pass-like symmetric row
            let c = (n - 1) / 2;
            let cutoff = rng.uniform(0.15, 0.9);
            let mut v = vec![0f32; 2 * n];
            for k in 0..n {
                let d = k as f64 - c as f64;
                let sinc = if d == 0.0 { cutoff } else { (std::f64::consts::PI * cutoff * d).sin() / (std::f64::consts::PI * d) };
                let win = 0.54 + 0.46 * (std::f64::consts::PI * d / (c as f64 + 1.0)).cos();
                v[k] = (sinc * win) as f32;
                v[n + k] = f32r(rng, 0.01, 0.1);
            }
            v
        });
        let gv_lpf = if opts.gv_lpf {
            Some(gen_model(rng, pool, "gv_lpf_", &[2], n * 2, 0, false, None, |rng, _| {
                let mut v: Vec<f32> = (0..n).map(|_| f32r(rng, 1e-4, 5e-3)).collect();
                v.extend((0..n).map(|_| f32r(rng, 1e-6, 1e-4)));
                v
            }))
        } else {
            None
        };
        streams.push(StreamSpec {
            name: "LPF".into(),
            vector_length: n,
            is_msd: false,
            use_gv: gv_lpf.is_some(),
            options: if opts.opt_order == 5 { vec!["ALPHA=0.25".to_string(), "BETA=0.4".to_string()] } else { vec![] },
            windows: if opts.lpf_win_padded { vec![vec![0.0, 1.0, 0.0]] } else { vec![vec![1.0]] },
            model: lpf_model,
            gv: gv_lpf,
        });
    }

    // a few means are written as -0.0 (0x80000000): a loaded voice keeps the sign bit
    // (not in a line-spectral-pair stream, whose means must stay increasing frequencies)
    for (si, st) in streams.iter_mut().enumerate() {
        if si == 0 && (opts.stage != 0 || opts.transparent) {
            continue; // (a transparent voice keeps its all-zero spectrum: identity filter)
        }
        let nmean = st.vector_length * st.windows.len();
        for tree in st.model.pdfs.iter_mut() {
            for pdf in tree.iter_mut() {
                for x in pdf.iter_mut().take(nmean) {
                    if rng.chance(0.02) {
                        *x = -0.0;
                    } else if rng.chance(0.01) {
                        // float32 denormals are values like any other
                        *x = *rng.pick(&[f32::from_bits(1), -f32::from_bits(0x0040_0000), f32::MIN_POSITIVE / 2.0, -f32::from_bits(7)]);
                    }
                }
            }
        }
    }
    if opts.trees_reversed {
        for st in streams.iter_mut() {
            if st.model.trees.len() > 1 {
                st.model.trees.reverse();
                st.model.pdfs.reverse();
            }
        }
    }

    VoiceSpec {
        version: "1.0".into(),
        sampling_frequency: opts.rate,
        frame_period: opts.fperiod,
        num_states: nstate,
        fullcontext_format: "HTS_TTS_JPN".into(),
        fullcontext_version: "1.0".into(),
        gv_off_context: vec!["*-sil+*".into(), "*-pau+*".into()],
        duration,
        streams,
        quote_mode: opts.quote_mode,
        opts: opts.clone(),
    }
}

// -------------------------------------------------------------------------------- writer

fn fmt_f64(x: f64) -> String {
    // shortest repr that parses back exactly; keep a decimal point like real files
    let s = format!("{:?}", x);
    s
}

struct TreeWriter<'a> {
    out: String,
    next_id: i64,
    prefix: &'a str,
    state: usize,
    quote_mode: u8,
    counter: usize,
}

impl TreeWriter<'_> {
    fn leaf_name(&mut self, id: usize) -> String {
        let base = if self.prefix.ends_with("_s") {
            format!("{}{}_{}", self.prefix, self.state, id)
        } else {
            format!("{}{}", self.prefix, id)
        };
        self.counter += 1;
        let quoted = match self.quote_mode {
            0 => true,
            1 => false,
            _ => self.counter % 2 == 0,
        };
        if quoted {
            format!("\"{}\"", base)
        } else {
            base
        }
    }
    fn child_token(&mut self, n: &NodeSpec, pending: &mut Vec<(i64, NodeSpec)>) -> String {
        match n {
            NodeSpec::Leaf(id) => self.leaf_name(*id),
            NodeSpec::Node { .. } => {
                self.next_id -= 1;
                let id = self.next_id;
                pending.push((id, n.clone()));
                format!("{}", id)
            }
        }
    }
}

fn write_model_text(m: &ModelSpec, quote_mode: u8, shuffle_nodes: bool) -> String {
    let mut s = String::new();
    for (name, pats) in &m.questions {
        let list: Vec<String> = pats.iter().map(|p| format!("\"{}\"", p)).collect();
        s.push_str(&format!("QS {} {{ {} }}\n", name, list.join(",")));
    }
    if !m.questions.is_empty() {
        s.push('\n');
    }
    for t in &m.trees {
        let mut tw = TreeWriter { out: String::new(), next_id: 0, prefix: &m.leaf_prefix, state: t.state, quote_mode, counter: t.state };
        match &t.root {
            NodeSpec::Leaf(id) => {
                let name = tw.leaf_name(*id);
                s.push_str(&format!("{{*}}[{}]\n   {}\n", t.state, name));
            }
            root => {
                s.push_str(&format!("{{*}}[{}]\n{{\n", t.state));
                let mut pending: Vec<(i64, NodeSpec)> = vec![(0, root.clone())];
                let mut qi = 0;
                while qi < pending.len() {
                    let (id, node) = pending[qi].clone();
                    qi += 1;
                    if let NodeSpec::Node { q, no, yes } = node {
                        let no_t = tw.child_token(&no, &mut pending);
                        let yes_t = tw.child_token(&yes, &mut pending);
                        tw.out.push_str(&format!("{:>4} {:<40} {:>16} {:>16} \n", id, q, no_t, yes_t));
                    }
                }
                if shuffle_nodes {
                    // keep the root line first, rotate / reverse the others deterministically
                    let mut lines: Vec<&str> = tw.out.lines().collect();
                    if lines.len() > 2 {
                        let rest = &mut lines[1..];
                        rest.reverse();
                        let k = t.state % rest.len();
                        rest.rotate_left(k);
                    }
                    s.push_str(&lines.join("\n"));
                    s.push('\n');
                } else {
                    s.push_str(&tw.out);
                }
                s.push_str("}\n\n");
            }
        }
    }
    s
}

fn write_pdf(m: &ModelSpec) -> Vec<u8> {
    let mut b = Vec::new();
    for t in &m.pdfs {
        b.extend((t.len() as u32).to_le_bytes());
    }
    for t in &m.pdfs {
        for p in t {
            debug_assert_eq!(p.len(), m.pdf_len);
            for x in p {
                b.extend(x.to_le_bytes());
            }
        }
    }
    b
}

pub fn write(spec: &VoiceSpec) -> Vec<u8> {
    write_hooked(spec, &mut |_, t| t.into_bytes())
}

/// Like `write`, but every text section of the data part ("DURATION_TREE", "STREAM_TREE[MCP]",
/// "GV_TREE[LF0]", "STREAM_WIN[MCP]#0", ...) passes through `hook` before it is laid out, so
/// structural faults keep all other positions valid.
pub fn write_hooked(spec: &VoiceSpec, hook: &mut dyn FnMut(&str, String) -> Vec<u8>) -> Vec<u8> {
    let mut data: Vec<u8> = Vec::new();
    let mut pos: Vec<String> = Vec::new();
    let put = |data: &mut Vec<u8>, bytes: &[u8]| -> String {
        let a = data.len();
        data.extend_from_slice(bytes);
        format!("{}-{}", a, data.len() - 1)
    };
    let r = put(&mut data, &write_pdf(&spec.duration));
    pos.push(format!("DURATION_PDF:{}", r));
    let r = put(&mut data, &hook("DURATION_TREE", write_model_text(&spec.duration, spec.quote_mode, spec.opts.shuffle_nodes)));
    pos.push(format!("DURATION_TREE:{}", r));
    for s in &spec.streams {
        let mut rs = Vec::new();
        for (wi, w) in s.windows.iter().enumerate() {
            let txt = format!(
                "{} {}\n",
                w.len(),
                w.iter().map(|c| fmt_f64(*c)).collect::<Vec<_>>().join(" ")
            );
            let bytes = hook(&format!("STREAM_WIN[{}]#{}", s.name, wi), txt);
            if spec.opts.win_tight && bytes.last() == Some(&b'\n') && bytes.len() > 1 {
                // range covers the text up to its last digit; the newline follows outside of it
                let r = put(&mut data, &bytes[..bytes.len() - 1]);
                data.push(b'\n');
                rs.push(r);
            } else {
                rs.push(put(&mut data, &bytes));
            }
        }
        pos.push(format!("STREAM_WIN[{}]:{}", s.name, rs.join(",")));
    }
    for s in &spec.streams {
        let r = put(&mut data, &write_pdf(&s.model));
        pos.push(format!("STREAM_PDF[{}]:{}", s.name, r));
    }
    for s in &spec.streams {
        let r = put(&mut data, &hook(&format!("STREAM_TREE[{}]", s.name), write_model_text(&s.model, spec.quote_mode, spec.opts.shuffle_nodes)));
        pos.push(format!("STREAM_TREE[{}]:{}", s.name, r));
    }
    for s in &spec.streams {
        if let Some(g) = &s.gv {
            let r = put(&mut data, &write_pdf(g));
            pos.push(format!("GV_PDF[{}]:{}", s.name, r));
        }
    }
    for s in &spec.streams {
        if let Some(g) = &s.gv {
            let r = put(&mut data, &hook(&format!("GV_TREE[{}]", s.name), write_model_text(g, spec.quote_mode, spec.opts.shuffle_nodes)));
            pos.push(format!("GV_TREE[{}]:{}", s.name, r));
        }
    }

    let mut h = String::new();
    h.push_str("[GLOBAL]\n");
    h.push_str(&format!("HTS_VOICE_VERSION:{}\n", spec.version));
    h.push_str(&format!("SAMPLING_FREQUENCY:{}\n", spec.sampling_frequency));
    h.push_str(&format!("FRAME_PERIOD:{}\n", spec.frame_period));
    h.push_str(&format!("NUM_STATES:{}\n", spec.num_states));
    h.push_str(&format!("NUM_STREAMS:{}\n", spec.streams.len()));
    h.push_str(&format!(
        "STREAM_TYPE:{}\n",
        spec.streams.iter().map(|s| s.name.clone()).collect::<Vec<_>>().join(",")
    ));
    h.push_str(&format!("FULLCONTEXT_FORMAT:{}\n", spec.fullcontext_format));
    h.push_str(&format!("FULLCONTEXT_VERSION:{}\n", spec.fullcontext_version));
    h.push_str(&format!(
        "GV_OFF_CONTEXT:{}\n",
        spec.gv_off_context.iter().map(|p| format!("\"{}\"", p)).collect::<Vec<_>>().join(",")
    ));
    h.push_str("COMMENT:\n");
    h.push_str("[STREAM]\n");
    for s in &spec.streams {
        h.push_str(&format!("VECTOR_LENGTH[{}]:{}\n", s.name, s.vector_length));
    }
    for s in &spec.streams {
        h.push_str(&format!("IS_MSD[{}]:{}\n", s.name, s.is_msd as u8));
    }
    for s in &spec.streams {
        h.push_str(&format!("NUM_WINDOWS[{}]:{}\n", s.name, s.windows.len()));
    }
    for s in &spec.streams {
        h.push_str(&format!("USE_GV[{}]:{}\n", s.name, s.use_gv as u8));
    }
    for s in &spec.streams {
        h.push_str(&format!("OPTION[{}]:{}\n", s.name, s.options.join(",")));
    }
    h.push_str("[POSITION]\n");
    for p in pos {
        h.push_str(&p);
        h.push('\n');
    }
    h.push_str("[DATA]\n");
    let mut out = h.into_bytes();
    out.extend(data);
    out
}

// -------------------------------------------------------------------------------- cross-check

fn same_tree(spec: &NodeSpec, tree: &crate::voiceread::RefTree, cur: &RefChild) -> bool {
    match (spec, cur) {
        (NodeSpec::Leaf(a), RefChild::Leaf(b)) => a == b,
        (NodeSpec::Node { q, no, yes }, RefChild::Node(id)) => {
            match tree.nodes.iter().find(|n| n.id == *id) {
                Some(n) => &n.question == q && same_tree(no, tree, &n.no) && same_tree(yes, tree, &n.yes),
                None => false,
            }
        }
        _ => false,
    }
}

fn same_model(a: &ModelSpec, b: &crate::voiceread::RefModel) -> Result<(), String> {
    if a.trees.len() != b.trees.len() {
        return Err("tree count".into());
    }
    for (ta, tb) in a.trees.iter().zip(&b.trees) {
        if ta.state != tb.state || !same_tree(&ta.root, tb, &tb.root) {
            return Err(format!("tree for state {} differs", ta.state));
        }
    }
    if a.pdfs.len() != b.pdfs.len() {
        return Err("pdf tree count".into());
    }
    for (pa, pb) in a.pdfs.iter().zip(&b.pdfs) {
        if pa.len() != pb.len() {
            return Err("pdf count".into());
        }
        for (x, y) in pa.iter().zip(pb) {
            if x.iter().map(|f| f.to_bits()).ne(y.iter().map(|f| f.to_bits())) {
                return Err("pdf floats".into());
            }
        }
    }
    for (n, p) in &a.questions {
        if b.questions.get(n) != Some(p) {
            return Err(format!("question {}", n));
        }
    }
    Ok(())
}

/// The generator's ground truth and the independent reader must agree, else the oracle
/// itself is broken (=> inconclusive, never a violation).
pub fn cross_check(spec: &VoiceSpec, r: &RefVoice) -> Result<(), String> {
    if spec.sampling_frequency != r.sampling_frequency
        || spec.frame_period != r.frame_period
        || spec.num_states != r.num_states
        || spec.streams.len() != r.num_streams
        || spec.gv_off_context != r.gv_off_context
    {
        return Err("global".into());
    }
    same_model(&spec.duration, &r.duration).map_err(|e| format!("duration: {}", e))?;
    for (a, b) in spec.streams.iter().zip(&r.streams) {
        if a.name != b.name
            || a.vector_length != b.vector_length
            || a.is_msd != b.is_msd
            || a.use_gv != b.use_gv
            || a.options != b.options
            || a.windows != b.windows
        {
            return Err(format!("stream {} metadata", a.name));
        }
        same_model(&a.model, &b.model).map_err(|e| format!("{}: {}", a.name, e))?;
        match (&a.gv, &b.gv) {
            (Some(x), Some(y)) => same_model(x, y).map_err(|e| format!("{} gv: {}", a.name, e))?,
            (None, None) => {}
            _ => return Err("gv presence".into()),
        }
    }
    Ok(())
}

// -------------------------------------------------------------------------------- perturbation

/// A valid copy of a real voice with PDF floats scaled / jittered in place.
/// strength in (0,1]: relative jitter on means; variances scaled by up to (1 +- strength/2).
pub fn perturb(bytes: &[u8], rng: &mut Rng, strength: f64) -> Vec<u8> {
    let v = crate::voiceread::read_voice(bytes).expect("perturb needs a valid voice");
    let d = bytes.windows(7).position(|w| w == b"[DATA]\n").unwrap() + 7;
    let mut out = bytes.to_vec();
    let kv: BTreeMap<String, String> = {
        let p = bytes.windows(11).position(|w| w == b"[POSITION]\n").unwrap();
        std::str::from_utf8(&bytes[p + 11..d - 7])
            .unwrap()
            .lines()
            .filter_map(|l| l.split_once(':').map(|(a, b)| (a.to_string(), b.to_string())))
            .collect()
    };
    let range = |k: &str| -> Option<(usize, usize)> {
        let v = kv.get(k)?;
        let (a, b) = v.split_once('-')?;
        Some((a.parse().ok()?, b.parse().ok()?))
    };
    let mut jitter = |out: &mut Vec<u8>, r: (usize, usize), ntree: usize, pdf_len: usize, nmean: usize, has_msd: bool, is_dur: bool| {
        let base = d + r.0 + 4 * ntree;
        let end = d + r.1 + 1;
        let mut off = base;
        while off + 4 * pdf_len <= end {
            for k in 0..pdf_len {
                let o = off + 4 * k;
                let x = f32::from_le_bytes(out[o..o + 4].try_into().unwrap()) as f64;
                let y = if k < nmean {
                    if is_dur {
                        (x * (1.0 + rng.uniform(-strength, strength))).max(0.05)
                    } else if x == 0.0 {
                        0.0
                    } else {
                        x * (1.0 + rng.uniform(-strength, strength) * 0.2)
                    }
                } else if k < 2 * nmean {
                    (x * (1.0 + rng.uniform(-strength, strength) * 0.5)).max(1e-12)
                } else if has_msd {
                    (x + rng.uniform(-strength, strength) * 0.3).clamp(0.01, 0.99)
                } else {
                    x
                };
                out[o..o + 4].copy_from_slice(&(y as f32).to_le_bytes());
            }
            off += 4 * pdf_len;
        }
    };
    if let Some(r) = range("DURATION_PDF") {
        jitter(&mut out, r, v.duration.trees.len(), v.duration.pdf_len, v.num_states, false, true);
    }
    for s in &v.streams {
        if let Some(r) = range(&format!("STREAM_PDF[{}]", s.name)) {
            let nmean = s.vector_length * s.num_windows;
            jitter(&mut out, r, s.model.trees.len(), s.model.pdf_len, nmean, s.is_msd, false);
        }
        if let (Some(g), Some(r)) = (&s.gv, range(&format!("GV_PDF[{}]", s.name))) {
            jitter(&mut out, r, g.trees.len(), g.pdf_len, s.vector_length, false, false);
        }
    }
    out
}

/// A valid copy of a voice whose GV means (target variances) are multiplied by `factor`.
pub fn scale_gv_means(bytes: &[u8], factor: f64) -> Vec<u8> {
    let v = crate::voiceread::read_voice(bytes).expect("scale_gv_means needs a valid voice");
    let d = bytes.windows(7).position(|w| w == b"[DATA]\n").unwrap() + 7;
    let p = bytes.windows(11).position(|w| w == b"[POSITION]\n").unwrap();
    let kv: BTreeMap<String, String> = std::str::from_utf8(&bytes[p + 11..d - 7])
        .unwrap()
        .lines()
        .filter_map(|l| l.split_once(':').map(|(a, b)| (a.to_string(), b.to_string())))
        .collect();
    let mut out = bytes.to_vec();
    for s in &v.streams {
        let (Some(g), Some(r)) = (&s.gv, kv.get(&format!("GV_PDF[{}]", s.name))) else { continue };
        let Some((a, b)) = r.split_once('-') else { continue };
        let (a, b): (usize, usize) = (a.parse().unwrap(), b.parse().unwrap());
        let mut off = d + a + 4 * g.trees.len();
        while off + 4 * g.pdf_len <= d + b + 1 {
            for k in 0..s.vector_length {
                let o = off + 4 * k;
                let x = f32::from_le_bytes(out[o..o + 4].try_into().unwrap()) as f64;
                out[o..o + 4].copy_from_slice(&((x * factor) as f32).to_le_bytes());
            }
            off += 4 * g.pdf_len;
        }
    }
    out
}
