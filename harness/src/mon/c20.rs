//! C20 — condition setters clamp to their documented ranges and round-trip.

use crate::ctx::Ctx;
use crate::env::Env;
use crate::json::J;
use crate::mon::c01::load_synthetic;
use crate::rng::{mix, Rng};
use crate::voicegen::VoiceOpts;
use crate::voiceread::RefVoice;
use jbonsai::Engine;

#[derive(Clone, Debug, PartialEq)]
struct Model {
    rate: usize,
    fperiod: usize,
    thr: Vec<f64>,
    gvw: Vec<f64>,
    speed: f64,
    align: bool,
    alpha: f64,
    beta: f64,
    half: f64,
}

fn limit(x: f64, lo: f64, hi: f64) -> f64 {
    if x < lo {
        lo
    } else if x > hi {
        hi
    } else {
        x
    }
}

fn farg(rng: &mut Rng) -> f64 {
    match rng.below(16) {
        0 => 0.0,
        1 => -0.0,
        2 => 5e-324,
        3 => -5e-324,
        4 => 1e-300,
        5 => -1e-300,
        6 => 1e300,
        7 => -1e300,
        8 => 0.5,
        9 => 1.0,
        10 => f64::from_bits(1.0f64.to_bits() + 1),
        11 => f64::from_bits(1.0f64.to_bits() - 1),
        12 => f64::from_bits(1e-6f64.to_bits() + 1),
        13 => f64::from_bits(1e-6f64.to_bits() - 1),
        14 => rng.uniform(-3.0, 3.0),
        _ => rng.normal() * 10f64.powi(rng.irange(-8, 8) as i32),
    }
}

fn uarg(rng: &mut Rng) -> usize {
    match rng.below(6) {
        0 => 0,
        1 => 1,
        2 => usize::MAX,
        3 => 48000,
        _ => rng.next_u64() as usize >> rng.below(60),
    }
}

fn observe(e: &Engine, n: usize) -> (Model, f64) {
    let c = &e.condition;
    (
        Model {
            rate: c.get_sampling_frequency(),
            fperiod: c.get_fperiod(),
            thr: (0..n).map(|i| c.get_msd_threshold(i)).collect(),
            gvw: (0..n).map(|i| c.get_gv_weight(i)).collect(),
            speed: c.get_speed(),
            align: c.get_phoneme_alignment_flag(),
            alpha: c.get_alpha(),
            beta: c.get_beta(),
            half: c.get_additional_half_tone(),
        },
        c.get_volume(),
    )
}

fn check_fresh(ctx: &mut Ctx, e: &Engine, rv: &RefVoice, descr: &str) -> Option<Model> {
    let n = rv.num_streams;
    let (m, vol) = observe(e, n);
    let alpha = rv.streams[0].options.iter().find_map(|o| o.strip_prefix("ALPHA=").and_then(|s| s.parse::<f64>().ok())).unwrap_or(0.0);
    let want = Model {
        rate: rv.sampling_frequency,
        fperiod: rv.frame_period,
        thr: vec![0.5; n],
        gvw: vec![1.0; n],
        speed: 1.0,
        align: false,
        alpha,
        beta: 0.0,
        half: 0.0,
    };
    ctx.count("fresh_engines_checked", 1.0);
    if m != want || vol != 0.0 {
        ctx.violation(
            "fresh-engine-defaults",
            J::obj().set("voice", descr).set("observed", format!("{:?} volume={}", m, vol)).set("expected", format!("{:?} volume=0", want)),
        );
        return None;
    }
    Some(m)
}

fn history(ctx: &mut Ctx, rng: &mut Rng, base: &Engine, rv: &RefVoice, descr: &str) {
    let n = rv.num_streams;
    let mut e = base.clone();
    let Some(mut model) = check_fresh(ctx, &e, rv, descr) else { return };
    let mut vol_before = e.condition.get_volume();
    let len = rng.range(1, 40);
    let mut calls: Vec<String> = Vec::new();
    // copies of the engine that stay alive while the original is modified (and vice versa)
    let mut alive: Vec<(Engine, Model)> = Vec::new();
    for _ in 0..len {
        let which = rng.below(13);
        if which == 12 {
            // the engine is put together again from its parts: nothing changes
            e = Engine::new(e.voices.clone(), e.condition.clone());
            calls.push("Engine::new(voices, condition)".into());
            let (m, vol) = observe(&e, n);
            if m != model || vol != vol_before {
                ctx.violation(
                    "getter-differs-from-reference-condition",
                    J::obj().set("voice", descr).set("calls", J::from(calls.clone())).set("observed", format!("{:?} volume={}", m, vol)).set("expected", format!("{:?} volume={}", model, vol_before)),
                );
                return;
            }
            continue;
        }
        if which == 10 {
            // Condition::load_model again: the per-stream settings, rate and frame period go back to the defaults
            let voices = e.voices.clone();
            if e.condition.load_model(&voices).is_err() {
                ctx.violation("load_model-err", J::from(descr));
                return;
            }
            model.rate = rv.sampling_frequency;
            model.fperiod = rv.frame_period;
            model.thr = vec![0.5; n];
            model.gvw = vec![1.0; n];
            if let Some(a) = rv.streams[0].options.iter().find_map(|o| o.strip_prefix("ALPHA=").and_then(|s| s.parse::<f64>().ok())) {
                model.alpha = a;
            }
            calls.push("load_model(voices)".into());
            let (got, _) = observe(&e, n);
            if got != model {
                ctx.violation(
                    "load_model-on-a-used-condition-does-not-restore-the-defaults",
                    J::obj().set("voice", descr).set("calls", J::from(calls.clone())).set("observed", format!("{:?}", got)).set("expected", format!("{:?}", model)),
                );
                return;
            }
            continue;
        }
        if which == 11 {
            // keep a clone alive; sometimes continue on the clone instead
            let c = e.clone();
            if rng.chance(0.5) {
                alive.push((c, model.clone()));
            } else {
                alive.push((std::mem::replace(&mut e, c), model.clone()));
            }
            calls.push("clone (kept alive)".into());
            continue;
        }
        let i = rng.below(n);
        let x = farg(rng);
        let u = uarg(rng);
        let c = &mut e.condition;
        let mut volume_set = false;
        match which {
            0 => {
                c.set_sampling_frequency(u);
                model.rate = u.max(1);
                calls.push(format!("set_sampling_frequency({})", u));
            }
            1 => {
                c.set_fperiod(u);
                model.fperiod = u.max(1);
                calls.push(format!("set_fperiod({})", u));
            }
            2 => {
                c.set_msd_threshold(i, x);
                model.thr[i] = limit(x, 0.0, 1.0);
                calls.push(format!("set_msd_threshold({}, {:e})", i, x));
                if calls.len() % 3 == 1 {
                    // looking at the interpolation weights in between changes no setting
                    let _ = c.get_interporation_weight_mut();
                    calls.push("get_interporation_weight_mut()".into());
                }
            }
            3 => {
                c.set_gv_weight(i, x);
                model.gvw[i] = if x < 0.0 { 0.0 } else { x };
                calls.push(format!("set_gv_weight({}, {:e})", i, x));
                if calls.len() % 3 == 1 {
                    // looking at the interpolation weights in between changes no setting
                    let _ = c.get_interporation_weight_mut();
                    calls.push("get_interporation_weight_mut()".into());
                }
            }
            4 => {
                c.set_speed(x);
                model.speed = if x < 1e-6 { 1e-6 } else { x };
                calls.push(format!("set_speed({:e})", x));
            }
            5 => {
                let b = rng.chance(0.5);
                c.set_phoneme_alignment_flag(b);
                model.align = b;
                calls.push(format!("set_phoneme_alignment_flag({})", b));
            }
            6 => {
                c.set_alpha(x);
                model.alpha = limit(x, 0.0, 1.0);
                calls.push(format!("set_alpha({:e})", x));
            }
            7 => {
                c.set_beta(x);
                model.beta = limit(x, 0.0, 1.0);
                calls.push(format!("set_beta({:e})", x));
            }
            8 => {
                c.set_additional_half_tone(x);
                model.half = x;
                calls.push(format!("set_additional_half_tone({:e})", x));
            }
            _ => {
                // (one call in three with an argument from the general pool: zeros, denormals,
                // +-1e300, ... — whatever the gain does with it, no other setting moves)
                let v = if rng.chance(0.33) { x } else { rng.uniform(-60.0, 60.0) };
                c.set_volume(v);
                volume_set = true;
                calls.push(format!("set_volume({})", v));
            }
        }
        let (got, vol) = observe(&e, n);
        ctx.count("setter_calls", 1.0);
        if got != model {
            ctx.violation(
                "getter-differs-from-reference-condition",
                J::obj().set("voice", descr).set("calls", J::from(calls.clone())).set("observed", format!("{:?}", got)).set("expected", format!("{:?}", model)),
            );
            return;
        }
        for (k, (c, m)) in alive.iter().enumerate() {
            let (g, _) = observe(c, n);
            if g != *m {
                ctx.violation(
                    "setter-on-one-engine-changed-a-live-clone",
                    J::obj().set("voice", descr).set("calls", J::from(calls.clone())).set("clone", k).set("observed", format!("{:?}", g)).set("expected", format!("{:?}", m)),
                );
                return;
            }
        }
        if !volume_set && vol.to_bits() != vol_before.to_bits() {
            ctx.violation("setter-changed-volume", J::obj().set("calls", J::from(calls.clone())).set("before", vol_before).set("after", vol));
            return;
        }
        vol_before = vol;
    }
    ctx.nontrivial(mix(&[crate::rng::hash_str(&calls.join(";"))]));
    if ctx.want_sample() {
        ctx.sample(J::obj().set("voice", descr).set("calls", J::from(calls)).set("final", format!("{:?}", model)));
    }
}

pub fn run(ctx: &mut Ctx) {
    let env = Env::new(ctx);
    let bundled = env.load_bundled();
    let n = ctx.n(2000, 600000);
    ctx.run_cases("bundled", n, false, |ctx, rng, _| {
        history(ctx, rng, &bundled, &env.bundled_ref, "bundled");
    });
    // a voice with a fourth stream (a copy of the low-pass stream): stream index 3 is in range
    {
        use std::sync::Arc;
        match jbonsai::model::load_htsvoice_file(&env.bundled_path) {
            Ok(mut v) => {
                let extra = v.stream_models[2].clone();
                v.stream_models.push(extra);
                v.metadata.num_streams = 4;
                let t = v.metadata.stream_type[2].clone();
                v.metadata.stream_type.push(t);
                let mut rv4 = env.bundled_ref.clone();
                rv4.num_streams = 4;
                let s2 = rv4.streams[2].clone();
                rv4.streams.push(s2);
                match crate::env::engine_from_voices(vec![Arc::new(v)]) {
                    Ok(e4) => {
                        let n = ctx.n(300, 20000);
                        ctx.run_cases("four-streams", n, false, |ctx, rng, _| {
                            history(ctx, rng, &e4, &rv4, "bundled + a fourth stream");
                        });
                    }
                    Err(er) => ctx.inconclusive(&format!("four-stream engine: {}", er)),
                }
            }
            Err(er) => ctx.inconclusive(&format!("bundled voice: {}", er)),
        }
    }
    // several voices with interpolation weights that do not sum to 1 bit-exactly (decimal
    // fractions): the condition's own settings and their getters have nothing to do with them
    {
        use std::sync::Arc;
        if let Ok(v) = jbonsai::model::load_htsvoice_file(&env.bundled_path) {
            let v = Arc::new(v);
            let n = ctx.n(120, 6000);
            ctx.run_cases("several-voices", n, false, |ctx, rng, idx| {
                let nv = *rng.pick(&[2usize, 3, 3, 6, 7]);
                let Ok(mut e) = crate::env::engine_from_voices(vec![v.clone(); nv]) else {
                    ctx.violation("engine-construction", J::from("copies of the bundled voice"));
                    return;
                };
                if idx % 2 == 0 && nv == 3 {
                    let iw = e.condition.get_interporation_weight_mut();
                    let w = *rng.pick(&[[0.7, 0.2, 0.1], [0.1, 0.2, 0.7], [0.3, 0.3, 0.4], [0.6, 0.3, 0.1]]);
                    for s in 0..3 {
                        let _ = iw.set_gv(s, &w);
                        let _ = iw.set_parameter(s, &w);
                    }
                    let _ = iw.set_duration(&w);
                }
                history(ctx, rng, &e, &env.bundled_ref, &format!("{} copies of the bundled voice", nv));
            });
        }
    }
    let n = ctx.n(300, 40000);
    ctx.run_cases("generated", n, false, |ctx, rng, _| {
        let o = VoiceOpts::random(rng);
        match load_synthetic(&env, &o, rng) {
            Ok((e, rv)) => {
                for _ in 0..4 {
                    history(ctx, rng, &e, &rv, &format!("synthetic[{}]", o.describe()));
                }
            }
            Err(e) => ctx.inconclusive(&e),
        }
    });
}
