//! C03 — synthesis is a deterministic pure function, safe to share across threads.

use crate::ctx::Ctx;
use crate::env::{Cond, Env};
use crate::json::{fvec, J};
use crate::labels::to_strings;
use crate::rng::{hash_f64s, hash_str, mix, Rng};
use crate::voicegen::{self, NodeSpec, QuestionPool, VoiceOpts};
use jbonsai::speech::SpeechGenerator;
use jbonsai::Engine;
use jlabel::Label;
use std::collections::BTreeSet;
use std::sync::{Arc, Barrier, Mutex};
use std::time::Instant;

/// the static part of the property: the engine can be shared, a generator can be moved
#[allow(dead_code)]
fn static_assertions() {
    fn shared<T: Send + Sync>() {}
    fn movable<T: Send>() {}
    shared::<Engine>();
    movable::<SpeechGenerator>();
}

fn getters(e: &Engine) -> String {
    let c = &e.condition;
    let n = e.voices.global_metadata().num_streams;
    format!(
        "{} {} {:?} {:?} {:?} {:?} {} {:?} {:?} {:?} {:?} {:?} {:?}",
        c.get_sampling_frequency(),
        c.get_fperiod(),
        c.get_volume().to_bits(),
        (0..n).map(|i| c.get_msd_threshold(i).to_bits()).collect::<Vec<_>>(),
        (0..n).map(|i| c.get_gv_weight(i).to_bits()).collect::<Vec<_>>(),
        c.get_speed().to_bits(),
        c.get_phoneme_alignment_flag(),
        c.get_alpha().to_bits(),
        c.get_beta().to_bits(),
        c.get_additional_half_tone().to_bits(),
        c.get_interporation_weight().get_duration().to_vec(),
        (0..n).map(|i| c.get_interporation_weight().get_parameter(i).to_vec()).collect::<Vec<_>>(),
        (0..n).map(|i| c.get_interporation_weight().get_gv(i).to_vec()).collect::<Vec<_>>(),
    )
}

/// An utterance as the caller hands it over: parsed labels, or (partly time-stamped) strings.
#[derive(Clone, Debug)]
pub enum Utt {
    Labels(Vec<Label>),
    Lines(Vec<String>),
}

impl Utt {
    fn synth(&self, e: &Engine) -> Result<Vec<f64>, jbonsai::EngineError> {
        match self {
            Utt::Labels(l) => e.synthesize(l.clone()),
            Utt::Lines(l) => e.synthesize(l.clone()),
        }
    }
    fn generator(&self, e: &Engine) -> Result<SpeechGenerator, jbonsai::EngineError> {
        match self {
            Utt::Labels(l) => e.generator(l.clone()),
            Utt::Lines(l) => e.generator(l.clone()),
        }
    }
    fn describe(&self) -> Vec<String> {
        match self {
            Utt::Labels(l) => to_strings(l),
            Utt::Lines(l) => l.clone(),
        }
    }
    /// random utterance; with `timed` some lines carry 100 ns time stamps (never the last one
    /// in half of the cases, so that the trailing-label fallback is exercised too)
    fn random(env: &Env, rng: &mut Rng, lo: usize, hi: usize, timed: bool) -> Utt {
        let labels = env.corpus.random_utterance(rng, lo, hi);
        if !timed {
            return Utt::Labels(labels);
        }
        let n = labels.len();
        let open_end = rng.chance(0.5);
        let mut t = 0u64;
        Utt::Lines(
            labels
                .iter()
                .enumerate()
                .map(|(i, l)| {
                    let a = t;
                    t += rng.range(300_000, 3_000_000) as u64;
                    if rng.chance(0.7) && !(open_end && i + 1 == n) {
                        format!("{} {} {}", a, t, l)
                    } else {
                        l.to_string()
                    }
                })
                .collect(),
        )
    }
}

/// reference: freshly loaded engine, same file, same condition values, single-threaded
fn fresh_reference(v: &Voice, cond: &Cond, labels: &Utt) -> Result<Vec<f64>, String> {
    let mut e = v.load()?;
    cond.apply(&mut e);
    labels.synth(&e).map_err(|e| format!("{}", e))
}

fn bits_eq(a: &[f64], b: &[f64]) -> bool {
    a.len() == b.len() && a.iter().zip(b).all(|(x, y)| x.to_bits() == y.to_bits())
}

struct Voice {
    paths: Vec<std::path::PathBuf>,
    descr: String,
    nstreams: usize,
    temp: bool,
    /// interpolation weights (duration, parameter per stream, gv per stream) for multi-voice engines
    weights: Option<(Vec<f64>, Vec<Vec<f64>>, Vec<Vec<f64>>)>,
}

impl Voice {
    fn load(&self) -> Result<Engine, String> {
        let mut e = Engine::load(&self.paths).map_err(|e| format!("{}", e))?;
        if let Some((d, p, g)) = &self.weights {
            let iw = e.condition.get_interporation_weight_mut();
            iw.set_duration(d).map_err(|e| format!("{}", e))?;
            for (i, w) in p.iter().enumerate() {
                iw.set_parameter(i, w).map_err(|e| format!("{}", e))?;
            }
            for (i, w) in g.iter().enumerate() {
                iw.set_gv(i, w).map_err(|e| format!("{}", e))?;
            }
        }
        Ok(e)
    }
    fn cleanup(&self, env: &Env) {
        if self.temp {
            for p in &self.paths {
                env.remove(p);
            }
        }
    }
}

fn pick_voice(env: &Env, rng: &mut Rng, bundled_p: f64) -> Result<Voice, String> {
    if rng.chance(bundled_p) {
        return Ok(Voice { paths: vec![env.bundled_path.clone()], descr: "bundled".into(), nstreams: 3, temp: false, weights: None });
    }
    let mut o = VoiceOpts::random(rng);
    // half of the generated voices ask regex-fallback questions whose answer depends on the label
    o.varying_regex_root = rng.chance(0.5);
    let nv = if rng.chance(0.45) { *rng.pick(&[2usize, 3, 3, 4]) } else { 1 };
    let mut paths = Vec::new();
    for _ in 0..nv {
        let spec = voicegen::generate(&o, &env.pool, rng);
        let bytes = voicegen::write(&spec);
        paths.push(env.voice_file(&bytes));
    }
    let weights = if nv > 1 {
        // the three kinds of weight vectors all differ from each other
        let mk = |rng: &mut Rng| crate::env::dyadic_weights(rng, nv, false);
        Some((mk(rng), (0..o.nstreams).map(|_| mk(rng)).collect(), (0..o.nstreams).map(|_| mk(rng)).collect()))
    } else {
        None
    };
    Ok(Voice { paths, descr: format!("{}x synthetic[{}]", nv, o.describe()), nstreams: o.nstreams, temp: true, weights })
}

// ------------------------------------------------------------------ sequential interleavings

fn interleave(ctx: &mut Ctx, env: &Env, rng: &mut Rng) {
    let v = match pick_voice(env, rng, 0.4) {
        Ok(v) => v,
        Err(e) => {
            ctx.inconclusive(&e);
            return;
        }
    };
    let cond = Cond::random(rng, v.nstreams, true);
    let mut engine = match v.load() {
        Ok(e) => e,
        Err(e) => {
            ctx.violation("voice-does-not-load", J::from(e));
            return;
        }
    };
    cond.apply(&mut engine);
    let nu = rng.range(2, 4);
    let utts: Vec<Utt> = (0..nu).map(|_| Utt::random(env, rng, 1, if ctx.quick() { 4 } else { 12 }, cond.alignment)).collect();
    let mut refs = Vec::new();
    for u in &utts {
        match fresh_reference(&v, &cond, u) {
            Ok(w) => refs.push(w),
            Err(e) => {
                ctx.violation("reference-synthesis-err", J::from(e));
                return;
            }
        }
    }
    let g0 = getters(&engine);
    let fp = engine.condition.get_fperiod();
    let mut live: Vec<(usize, SpeechGenerator, usize)> = Vec::new(); // (utterance, generator, frames taken)
    // one frame buffer for the whole program, as a streaming caller has it: what an earlier
    // step (of any generator) left in it must not show in a later frame
    let mut frame_buf: Vec<f64> = vec![7.25e77; fp];
    let mut prog: Vec<String> = Vec::new();
    let mut distinct_utts = BTreeSet::new();
    let mut with_live = false;
    let nops = rng.range(6, 20);
    for _ in 0..nops {
        let op = rng.below(7);
        let u = rng.below(nu);
        let d = |prog: &Vec<String>, extra: J| J::obj().set("voice", v.descr.clone()).set("cond", cond.to_json()).set("program", J::from(prog.clone())).set("observed", extra);
        match op {
            0 | 1 => {
                let w = if op == 0 {
                    prog.push(format!("synthesize(u{})", u));
                    utts[u].synth(&engine)
                } else {
                    prog.push(format!("clone().synthesize(u{})", u));
                    utts[u].synth(&engine.clone())
                };
                match w {
                    Ok(w) => {
                        if !bits_eq(&w, &refs[u]) {
                            ctx.violation("output-differs-from-fresh-engine", d(&prog, J::obj().set("len", w.len()).set("reference_len", refs[u].len()).set("live_generators", live.len())));
                            return;
                        }
                        distinct_utts.insert(u);
                        with_live |= !live.is_empty();
                    }
                    Err(e) => {
                        ctx.violation("synthesize-err", d(&prog, J::from(format!("{}", e))));
                        return;
                    }
                }
                ctx.count("calls_compared", 1.0);
            }
            2 => {
                prog.push(format!("g = generator(u{})", u));
                match utts[u].generator(&engine) {
                    Ok(g) => live.push((u, g, 0)),
                    Err(e) => {
                        ctx.violation("generator-err", d(&prog, J::from(format!("{}", e))));
                        return;
                    }
                }
            }
            3 | 4 => {
                if live.is_empty() {
                    continue;
                }
                let k = rng.below(live.len());
                let n = rng.range(1, 5);
                prog.push(format!("g{}.step x{}", k, n));
                for _ in 0..n {
                    let (u, g, taken) = &mut live[k];
                    let buf = &mut frame_buf;
                    let r = g.generate_step(buf);
                    let total = refs[*u].len() / fp;
                    if *taken < total {
                        if r != fp || !bits_eq(&buf, &refs[*u][*taken * fp..(*taken + 1) * fp]) {
                            ctx.violation("interleaved-generator-chunk-differs", d(&prog, J::obj().set("frame", *taken).set("returned", r)));
                            return;
                        }
                        *taken += 1;
                    } else if r != 0 {
                        ctx.violation("exhausted-generator-returned-nonzero", d(&prog, J::Null));
                        return;
                    }
                }
                ctx.count("generator_steps_compared", n as f64);
            }
            5 => {
                if live.is_empty() {
                    continue;
                }
                let k = rng.below(live.len());
                let (u, g, taken) = live.swap_remove(k);
                if rng.chance(0.5) {
                    prog.push(format!("g{}.finish", k));
                    let rest = g.generate_all();
                    if !bits_eq(&rest, &refs[u][taken.min(refs[u].len() / fp) * fp..]) {
                        ctx.violation("interleaved-generator-finish-differs", d(&prog, J::Null));
                        return;
                    }
                } else {
                    prog.push(format!("drop g{}", k));
                    drop(g);
                }
            }
            _ => {
                prog.push("read getters".into());
                if getters(&engine) != g0 {
                    ctx.violation("a-call-changed-the-observable-settings", d(&prog, J::obj().set("before", g0.clone()).set("after", getters(&engine))));
                    return;
                }
            }
        }
    }
    if getters(&engine) != g0 {
        ctx.violation("a-call-changed-the-observable-settings", J::obj().set("voice", v.descr.clone()).set("program", J::from(prog.clone())));
        return;
    }
    if distinct_utts.len() >= 2 && with_live {
        ctx.nontrivial(mix(&[1, hash_str(&v.descr), hash_str(&prog.join(";"))]));
    }
    if ctx.want_sample() {
        ctx.sample(J::obj().set("voice", v.descr.clone()).set("program", J::from(prog)));
    }
    v.cleanup(env);
}

// ------------------------------------------------------------------ floating-point control word

/// MXCSR as a new process has it (all exceptions masked, round to nearest, no flush-to-zero)
const FP_DEFAULT: u32 = 0x1F80;

#[cfg(all(target_arch = "x86_64", not(miri)))]
fn fp_control_word() -> u32 {
    let mut w: u32 = 0;
    // SAFETY: stmxcsr stores the 32-bit MXCSR register to the given address
    unsafe { std::arch::asm!("stmxcsr [{}]", in(reg) &mut w, options(nostack)) };
    w & !0x3F // (without the sticky exception flags)
}
#[cfg(all(target_arch = "x86_64", not(miri)))]
fn reset_fp_control_word() {
    let w: u32 = FP_DEFAULT;
    // SAFETY: ldmxcsr loads MXCSR from the given address; 0x1F80 is the power-on default
    unsafe { std::arch::asm!("ldmxcsr [{}]", in(reg) &w, options(nostack, readonly)) };
}
#[cfg(not(all(target_arch = "x86_64", not(miri))))]
fn fp_control_word() -> u32 {
    FP_DEFAULT
}
#[cfg(not(all(target_arch = "x86_64", not(miri))))]
fn reset_fp_control_word() {}

// ------------------------------------------------------------------ setter histories

fn setter_history(ctx: &mut Ctx, env: &Env, rng: &mut Rng) {
    let v = match pick_voice(env, rng, 0.3) {
        Ok(v) => v,
        Err(e) => {
            ctx.inconclusive(&e);
            return;
        }
    };
    let n = v.nstreams;
    // the final condition: every knob gets a definite value
    let mut fin = Cond::random(rng, n, true);
    fin.alpha = Some(fin.alpha.unwrap_or(0.4));
    fin.beta = Some(fin.beta.unwrap_or(0.0));
    fin.half_tone = Some(fin.half_tone.unwrap_or(0.0));
    fin.volume_db = Some(fin.volume_db.unwrap_or(0.0));
    fin.speed = Some(fin.speed.unwrap_or(1.0));
    fin.fperiod = Some(fin.fperiod.unwrap_or(120));
    fin.rate = Some(fin.rate.unwrap_or(16000));
    for i in 0..n {
        fin.gv_weight[i] = Some(fin.gv_weight[i].unwrap_or(1.0));
        fin.msd_threshold[i] = Some(fin.msd_threshold[i].unwrap_or(0.5));
    }
    // several voices: in half of the cases engine a keeps the weights it was *loaded* with and
    // engine b is moved away from them and back (a weight vector that was set must behave
    // like the same vector that was never touched)
    let nv = v.paths.len();
    let untouched_weights = nv > 1 && rng.chance(0.6);
    let load = |v: &Voice| if untouched_weights { Engine::load(&v.paths).map_err(|e| format!("{}", e)) } else { v.load() };
    let (Ok(mut a), Ok(mut b)) = (load(&v), load(&v)) else {
        ctx.violation("voice-does-not-load", J::from(v.descr.clone()));
        return;
    };
    fin.apply(&mut a);
    // engine b: junk first (out-of-range values, rejected weight updates, overwritten values), then
    // the final values one knob at a time in random order, possibly several times
    let mut log: Vec<String> = Vec::new();
    for _ in 0..rng.range(3, 25) {
        let junk = Cond::random(rng, n, true);
        junk.apply(&mut b);
        b.condition.set_speed(*rng.pick(&[-1.0, 0.0, 1e300, 0.3]));
        if b.condition.get_speed() < 0.2 {
            b.condition.set_speed(0.5);
        }
        b.condition.set_alpha(*rng.pick(&[-5.0, 7.0, 0.2]));
        b.condition.set_msd_threshold(rng.below(n), *rng.pick(&[-1.0, 2.0, 0.1]));
        let iw = b.condition.get_interporation_weight_mut();
        let _ = iw.set_duration(&[0.5, 0.25]); // bad sum: rejected whatever the number of voices
        let _ = iw.set_parameter(0, &[2.0]); // bad sum: rejected
        let _ = iw.set_gv(0, &[f64::NAN]);
        if nv > 1 && rng.chance(0.7) {
            // valid updates as well: they are overwritten by the final values below
            let _ = iw.set_duration(&crate::env::dyadic_weights(rng, nv, true));
            let _ = iw.set_parameter(rng.below(n), &crate::env::dyadic_weights(rng, nv, true));
            let _ = iw.set_gv(rng.below(n), &crate::env::dyadic_weights(rng, nv, true));
            log.push("valid weight updates".into());
        }
        log.push(format!("junk {}", junk.to_json()));
        // the engine is *used* between setter calls: anything a call remembers (a cached
        // vocoder, a memoised trajectory) must not survive into later settings
        if rng.chance(0.4) {
            let u = env.corpus.random_utterance(rng, 1, 2);
            match rng.below(3) {
                0 => {
                    let _ = b.synthesize(u);
                    log.push("synthesize".into());
                }
                1 => {
                    let _ = b.clone().synthesize(u);
                    log.push("clone().synthesize".into());
                }
                _ => {
                    if let Ok(mut g) = b.generator(u) {
                        let mut buf = vec![0.0; g.fperiod()];
                        let _ = g.generate_step(&mut buf);
                    }
                    log.push("generator + one step".into());
                }
            }
        }
    }
    let mut order: Vec<usize> = (0..9 + 2 * n).collect();
    rng.shuffle(&mut order);
    for k in order {
        let c = &mut b.condition;
        match k {
            0 => c.set_alpha(fin.alpha.unwrap()),
            1 => c.set_beta(fin.beta.unwrap()),
            2 => c.set_additional_half_tone(fin.half_tone.unwrap()),
            3 => c.set_volume(fin.volume_db.unwrap()),
            4 => c.set_speed(fin.speed.unwrap()),
            5 => c.set_fperiod(fin.fperiod.unwrap()),
            6 => c.set_sampling_frequency(fin.rate.unwrap()),
            7 => c.set_phoneme_alignment_flag(fin.alignment),
            8 => {
                let _ = c.get_interporation_weight_mut().set_duration(&[0.25, 0.25]); // rejected: nothing changes
            }
            k if k < 9 + n => c.set_gv_weight(k - 9, fin.gv_weight[k - 9].unwrap()),
            k => c.set_msd_threshold(k - 9 - n, fin.msd_threshold[k - 9 - n].unwrap()),
        }
    }
    if nv > 1 {
        // the weights engine a has (loaded or set) are set on b, one vector at a time
        let wa = a.condition.get_interporation_weight().clone();
        let iw = b.condition.get_interporation_weight_mut();
        let mut ok = iw.set_duration(&wa.get_duration().to_vec()).is_ok();
        for i in 0..n {
            ok &= iw.set_parameter(i, &wa.get_parameter(i).to_vec()).is_ok();
            ok &= iw.set_gv(i, &wa.get_gv(i).to_vec()).is_ok();
        }
        if !ok {
            ctx.violation("weights-in-force-rejected-by-their-own-setter", J::from(v.descr.clone()));
            return;
        }
        // ... and then refused updates of the right length (bad sum, zeros at the end, a NaN):
        // a refusal leaves the engine exactly as it was
        {
            let mut bad = vec![0.0; nv];
            bad[0] = *rng.pick(&[0.5, 2.0, 0.999]);
            let mut refused = iw.set_duration(&bad).is_err();
            for i in 0..n {
                refused &= iw.set_parameter(i, &bad).is_err();
                refused &= iw.set_gv(i, &bad).is_err();
            }
            let mut nan = vec![0.0; nv];
            nan[nv - 1] = f64::NAN;
            nan[0] = 0.5;
            refused &= iw.set_duration(&nan).is_err();
            if !refused {
                ctx.violation("invalid-weights-accepted", J::from(v.descr.clone()));
                return;
            }
            log.push(format!("refused updates {:?} on every weight vector", bad));
        }
        log.push(if untouched_weights { "weights set back to the loaded ones".into() } else { "weights set to a's".into() });
        ctx.count(if untouched_weights { "histories_against_untouched_weights" } else { "histories_against_set_weights" }, 1.0);
    }
    let d = |extra: J| J::obj().set("voice", v.descr.clone()).set("final", fin.to_json()).set("history_of_b", J::from(log.clone())).set("observed", extra);
    if getters(&a) != getters(&b) {
        ctx.violation("same-final-settings-different-getters", d(J::obj().set("a", getters(&a)).set("b", getters(&b))));
        return;
    }
    for _ in 0..2 {
        let u = Utt::random(env, rng, 1, if ctx.quick() { 4 } else { 12 }, fin.alignment);
        match (u.synth(&a), u.synth(&b)) {
            (Ok(x), Ok(y)) => {
                if !bits_eq(&x, &y) {
                    ctx.violation("setter-history-changes-the-waveform", d(J::obj().set("len_a", x.len()).set("len_b", y.len()).set("labels", J::from(u.describe()))));
                    return;
                }
                ctx.count("history_pairs_compared", 1.0);
                // a second call on the same engine repeats itself
                if let Ok(z) = u.synth(&b) {
                    if !bits_eq(&y, &z) {
                        ctx.violation("repeating-a-call-changes-the-output", d(J::Null));
                        return;
                    }
                }
            }
            _ => {
                ctx.violation("synthesize-err", d(J::Null));
                return;
            }
        }
    }
    ctx.nontrivial(mix(&[2, hash_str(&v.descr), hash_str(&log.join(";")), hash_str(&format!("{}", fin.to_json()))]));
    v.cleanup(env);
}

// ------------------------------------------------------------------ concurrent calls on one shared engine

#[derive(Clone, Debug)]
struct Event {
    thread: usize,
    op: &'static str,
    utt: usize,
    t_call: u128,
    t_ret: u128,
    hash: u64,
    ok: bool,
}

/// `refs[u]` = hash of the single-threaded fresh-engine waveform of utterance u
pub fn concurrent_run(engine: &Engine, utts: &[Utt], k: usize, calls_per_thread: usize, seed: u64, spin: bool) -> Vec<Event> {
    let barrier = Arc::new(Barrier::new(k));
    let log: Arc<Mutex<Vec<Event>>> = Arc::new(Mutex::new(Vec::new()));
    let t0 = Instant::now();
    std::thread::scope(|s| {
        for t in 0..k {
            let barrier = barrier.clone();
            let log = log.clone();
            s.spawn(move || {
                let mut rng = Rng::new(mix(&[seed, t as u64]));
                barrier.wait();
                for _ in 0..calls_per_thread {
                    // randomised delay *between* calls
                    if spin {
                        for _ in 0..rng.below(2000) {
                            std::hint::spin_loop();
                        }
                    }
                    if rng.chance(0.3) {
                        std::thread::yield_now();
                    }
                    let u = rng.below(utts.len());
                    let kind = rng.below(3);
                    let t_call = t0.elapsed().as_nanos();
                    let (op, res): (&'static str, Result<Vec<f64>, String>) = match kind {
                        0 => ("synthesize", utts[u].synth(engine).map_err(|e| format!("{}", e))),
                        1 => ("clone.synthesize", utts[u].synth(&engine.clone()).map_err(|e| format!("{}", e))),
                        _ => (
                            "generator+steps",
                            utts[u]
                                .generator(engine)
                                .map(|mut g| {
                                    let fp = g.fperiod();
                                    let mut out = Vec::new();
                                    let mut buf = vec![0.0; fp];
                                    while g.generate_step(&mut buf) > 0 {
                                        out.extend_from_slice(&buf);
                                        if rng.chance(0.05) {
                                            std::thread::yield_now();
                                        }
                                    }
                                    out
                                })
                                .map_err(|e| format!("{}", e)),
                        ),
                    };
                    let t_ret = t0.elapsed().as_nanos();
                    let (hash, ok) = match &res {
                        Ok(w) => (hash_f64s(w), true),
                        Err(_) => (0, false),
                    };
                    log.lock().unwrap().push(Event { thread: t, op, utt: u, t_call, t_ret, hash, ok });
                }
            });
        }
    });
    let v = log.lock().unwrap().clone();
    v
}

/// (number of ops that overlapped another op, max concurrency, distinct overlap signatures)
fn overlap_stats(ev: &[Event]) -> (usize, usize, BTreeSet<String>) {
    let mut overlapped = 0;
    let mut maxc = 0;
    let mut sigs = BTreeSet::new();
    for (i, a) in ev.iter().enumerate() {
        let mut with: Vec<String> = Vec::new();
        for (j, b) in ev.iter().enumerate() {
            if i != j && a.thread != b.thread && a.t_call < b.t_ret && b.t_call < a.t_ret {
                with.push(format!("t{}:{}", b.thread, b.op));
            }
        }
        if !with.is_empty() {
            overlapped += 1;
            with.sort();
            with.dedup();
            maxc = maxc.max(with.len() + 1);
            sigs.insert(format!("t{}:{}|{}", a.thread, a.op, with.join(",")));
        }
    }
    (overlapped, maxc, sigs)
}

fn concurrent(ctx: &mut Ctx, env: &Env, rng: &mut Rng, idx: usize) {
    let v = match pick_voice(env, rng, if idx % 2 == 0 { 1.0 } else { 0.0 }) {
        Ok(v) => v,
        Err(e) => {
            ctx.inconclusive(&e);
            return;
        }
    };
    let cond = Cond::random(rng, v.nstreams, true);
    let mut engine = match v.load() {
        Ok(e) => e,
        Err(e) => {
            ctx.violation("voice-does-not-load", J::from(e));
            return;
        }
    };
    cond.apply(&mut engine);
    let utts: Vec<Utt> = (0..6).map(|_| Utt::random(env, rng, 1, if ctx.quick() { 3 } else { 8 }, cond.alignment)).collect();
    let mut refs = Vec::new();
    for u in &utts {
        match fresh_reference(&v, &cond, u) {
            Ok(w) => refs.push(hash_f64s(&w)),
            Err(e) => {
                ctx.violation("reference-synthesis-err", J::from(e));
                return;
            }
        }
    }
    let g0 = getters(&engine);
    let k = [2usize, 4, 8, 16][idx % 4];
    let calls = if ctx.quick() { 4 } else { 10 };
    let ev = concurrent_run(&engine, &utts, k, calls, rng.next_u64(), true);
    let (overlapped, maxc, sigs) = overlap_stats(&ev);
    ctx.count("concurrent_calls", ev.len() as f64);
    ctx.count("calls_that_overlapped_another_call", overlapped as f64);
    ctx.max("max_observed_concurrency", maxc as f64);
    for s in &sigs {
        ctx.nontrivial(mix(&[3, hash_str(s), k as u64]));
    }
    ctx.count("distinct_overlap_signatures_in_run", sigs.len() as f64);
    for e in &ev {
        if !e.ok || e.hash != refs[e.utt] {
            ctx.violation(
                "concurrent-output-differs-from-single-threaded-fresh-engine",
                J::obj()
                    .set("voice", v.descr.clone())
                    .set("cond", cond.to_json())
                    .set("threads", k)
                    .set("thread", e.thread)
                    .set("op", e.op)
                    .set("utterance", e.utt)
                    .set("ok", e.ok)
                    .set("overlapping_calls", overlapped),
            );
            return;
        }
    }
    if getters(&engine) != g0 {
        ctx.violation("concurrent-calls-changed-the-observable-settings", J::from(v.descr.clone()));
        return;
    }
    if overlapped == 0 {
        ctx.count("runs_without_any_overlap", 1.0);
    }
    if ctx.want_sample() {
        ctx.sample(
            J::obj()
                .set("voice", v.descr.clone())
                .set("threads", k)
                .set("calls", ev.len())
                .set("overlapped", overlapped)
                .set("max_concurrency", maxc)
                .set("events_head", J::Arr(ev.iter().take(6).map(|e| J::Str(format!("t{} {} u{} [{}..{}]ns {:016x}", e.thread, e.op, e.utt, e.t_call, e.t_ret, e.hash))).collect())),
        );
    }
    v.cleanup(env);
}

// ------------------------------------------------------------------ interpreter-sized workload (Miri)

const TINY_LABELS: [&str; 3] = [
    "xx^xx-sil+b=o/A:xx+xx+xx/B:xx-xx_xx/C:xx_xx+xx/D:xx+xx_xx/E:xx_xx!xx_xx-xx/F:xx_xx#xx_xx@xx_xx|xx_xx/G:4_4%0_xx_xx/H:xx_xx/I:xx-xx@xx+xx&xx-xx|xx+xx/J:1_4/K:1+1-4",
    "xx^sil-b+o=N/A:-3+1+4/B:xx-xx_xx/C:02_xx+xx/D:xx+xx_xx/E:xx_xx!xx_xx-xx/F:4_4#0_xx@1_1|1_4/G:xx_xx%xx_xx_xx/H:xx_xx/I:1-4@1+1&1-1|1+4/J:xx_xx/K:1+1-4",
    "a^i-sil+xx=xx/A:xx+xx+xx/B:xx-xx_xx/C:xx_xx+xx/D:xx+xx_xx/E:4_4!0_xx-xx/F:xx_xx#xx_xx@xx_xx|xx_xx/G:xx_xx%xx_xx_xx/H:1_4/I:xx-xx@xx+xx&xx-xx|xx+xx/J:xx_xx/K:1+1-4",
];

/// Tiny voice (1 state, 3 coefficients, frame period 4) whose duration tree asks one
/// regex-fallback question, so that the shared regex cache pool is reached from every thread.
fn tiny_voice_bytes(with_regex: bool) -> Vec<u8> {
    let mut pool = QuestionPool::builtin();
    if with_regex {
        pool.all.push(("C-Acc_Pau_R-Acc=0".into(), vec!["*-1/H:*".into()]));
    }
    let mut rng = Rng::new(99);
    let mut o = VoiceOpts::tiny();
    o.max_depth = 0;
    let mut spec = voicegen::generate(&o, &pool, &mut rng);
    if with_regex {
        // duration tree: one regex-fallback question at the root
        let q = pool.all.last().unwrap().clone();
        spec.duration.questions = vec![q.clone()];
        spec.duration.trees[0].root = NodeSpec::Node { q: q.0, no: Box::new(NodeSpec::Leaf(1)), yes: Box::new(NodeSpec::Leaf(2)) };
        spec.duration.trees[0].nleaves = 2;
        let p = spec.duration.pdfs[0][0].clone();
        spec.duration.pdfs[0] = vec![p.clone(), p.iter().map(|x| x + 1.0).collect()];
    }
    voicegen::write(&spec)
}

fn miri_threads(ctx: &mut Ctx, idx: usize) {
    let bytes = tiny_voice_bytes(idx % 2 == 0);
    let dir = crate::env::tmp_base().join(format!("jbv-miri-{}-{}", std::process::id(), idx));
    std::fs::create_dir_all(&dir).expect("tmp dir");
    let path = dir.join("tiny.htsvoice");
    std::fs::write(&path, &bytes).expect("write tiny voice");
    let engine = match Engine::load(&[&path]) {
        Ok(e) => e,
        Err(e) => {
            ctx.violation("tiny-voice-does-not-load", J::from(format!("{}", e)));
            return;
        }
    };
    let utts: Vec<Utt> = vec![
        Utt::Labels(vec![TINY_LABELS[0].parse().unwrap(), TINY_LABELS[1].parse().unwrap()]),
        Utt::Labels(vec![TINY_LABELS[2].parse().unwrap()]),
    ];
    let refs: Vec<u64> = utts
        .iter()
        .map(|u| {
            let e = Engine::load(&[&path]).expect("reload");
            hash_f64s(&u.synth(&e).expect("reference"))
        })
        .collect();
    let k = 2 + idx % 2;
    let ev = concurrent_run(&engine, &utts, k, 2, 7 + idx as u64, false);
    let (overlapped, maxc, sigs) = overlap_stats(&ev);
    ctx.count("concurrent_calls", ev.len() as f64);
    ctx.count("calls_that_overlapped_another_call", overlapped as f64);
    ctx.max("max_observed_concurrency", maxc as f64);
    for e in &ev {
        if !e.ok || e.hash != refs[e.utt] {
            ctx.violation("concurrent-output-differs-from-single-threaded-fresh-engine", J::obj().set("voice", "tiny").set("thread", e.thread).set("op", e.op));
            break;
        }
    }
    for s in &sigs {
        ctx.nontrivial(mix(&[4, hash_str(s), k as u64]));
    }
    // under an interpreter the wall clock is virtual; count every multi-thread run as observed
    ctx.nontrivial(mix(&[5, idx as u64, k as u64]));
    ctx.nontrivial(mix(&[6, ev.len() as u64, k as u64]));
    let _ = std::fs::remove_dir_all(&dir);
}

pub fn run(ctx: &mut Ctx) {
    if std::env::var("JBV_MIRI").is_ok() {
        // interpreter-sized: no corpus, no bundled voice
        let n = ctx.n(2, 4);
        ctx.run_cases("miri-threads", n, true, |ctx, _rng, idx| {
            miri_threads(ctx, idx);
        });
        return;
    }
    let env = Env::new(ctx);
    let n = ctx.n(96, 3000);
    ctx.run_cases("interleave", n, false, |ctx, rng, _| {
        interleave(ctx, &env, rng);
    });
    let n = ctx.n(96, 3000);
    ctx.run_cases("setter-history", n, false, |ctx, rng, _| {
        setter_history(ctx, &env, rng);
    });
    let n = ctx.n(32, 400);
    ctx.run_cases("concurrent", n, false, |ctx, rng, idx| {
        concurrent(ctx, &env, rng, idx);
    });
    // read-back / write-back histories: engine b sets x, reads y back and sets y; engine a sets y
    // directly. Whenever all getters agree afterwards the waveforms must agree bit for bit. The
    // Debug rendering of the two conditions (which shows private fields) is only used to find
    // candidates worth the two syntheses; the verdict is the waveform.
    let n = ctx.n(16, 400);
    ctx.run_cases("read-back-write-back", n, false, |ctx, rng, idx| {
        let base = env.load_bundled();
        let u = Utt::random(&env, rng, 1, 3, false);
        let mut candidates = 0usize;
        let mut tried = 0usize;
        for k in 0..2000 {
            let which = (idx + k) % 6;
            let x = match which {
                // (4, 5: alpha / beta outside their range: the getter shows the clamped value,
                // and an engine that is given the clamped value directly is the same engine)
                4 | 5 => *rng.pick(&[1.75, -0.5, 1.0000000000000002, 3.0, -1e-300]),
                0 => (rng.range(0, 1600) as f64 - 800.0) / 20.0, // volume on a 0.05 dB grid
                1 => rng.uniform(-40.0, 40.0),
                2 => rng.uniform(0.3, 3.0),
                _ => rng.uniform(-24.0, 24.0),
            };
            let mut a = base.clone();
            let mut b = base.clone();
            let y = match which {
                0 | 1 => {
                    b.condition.set_volume(x);
                    let y = b.condition.get_volume();
                    b.condition.set_volume(y);
                    a.condition.set_volume(y);
                    y
                }
                2 => {
                    b.condition.set_speed(x);
                    let y = b.condition.get_speed();
                    b.condition.set_speed(y);
                    a.condition.set_speed(y);
                    y
                }
                4 => {
                    b.condition.set_alpha(x);
                    let y = b.condition.get_alpha();
                    a.condition.set_alpha(y);
                    y
                }
                5 => {
                    b.condition.set_beta(x);
                    let y = b.condition.get_beta();
                    a.condition.set_beta(y);
                    y
                }
                _ => {
                    b.condition.set_additional_half_tone(x);
                    let y = b.condition.get_additional_half_tone();
                    b.condition.set_additional_half_tone(y);
                    a.condition.set_additional_half_tone(y);
                    y
                }
            };
            tried += 1;
            if getters(&a) != getters(&b) {
                continue; // the property is about equal current settings only
            }
            if format!("{:?}", a.condition) == format!("{:?}", b.condition) {
                continue;
            }
            candidates += 1;
            match (u.synth(&a), u.synth(&b)) {
                (Ok(wa), Ok(wb)) => {
                    if !bits_eq(&wa, &wb) {
                        ctx.violation(
                            "same-getters-different-waveform",
                            J::obj().set("setter", ["volume", "volume", "speed", "half tone", "alpha", "beta"][which]).set("x", x).set("read_back_and_set_again", y).set("getters", getters(&a)).set("condition_a", format!("{:?}", a.condition)).set("condition_b", format!("{:?}", b.condition)),
                        );
                        return;
                    }
                }
                _ => {
                    ctx.violation("synthesize-err", J::from("read-back-write-back"));
                    return;
                }
            }
            if candidates >= 8 {
                break;
            }
        }
        ctx.count("read_back_histories_tried", tried as f64);
        ctx.count("read_back_candidates_with_differing_private_state", candidates as f64);
        ctx.nontrivial(mix(&[31, idx as u64]));
    });
    // longer utterances at speeds above 1: the duration adjustment then meets equal-cost ties
    // between states that share a duration pdf; every call must break them the same way
    let n = ctx.n(48, 800);
    ctx.run_cases("speed-ties", n, false, |ctx, rng, _| {
        let mut e = env.load_bundled();
        let s = rng.uniform(1.4, 2.8);
        e.condition.set_speed(s);
        let nl = rng.range(30, 60);
        let u = Utt::Labels(env.corpus.utterance(rng, nl, 0));
        let Ok(first) = u.synth(&e) else {
            ctx.violation("synthesize-err", J::from("speed-ties"));
            return;
        };
        for k in 0..3 {
            let again = if k == 1 { u.synth(&e.clone()) } else { u.synth(&e) };
            match again {
                Ok(w) if bits_eq(&w, &first) => {}
                _ => {
                    ctx.violation("repeating-a-call-changes-the-output", J::obj().set("speed", s).set("labels", nl).set("call", k + 2));
                    return;
                }
            }
        }
        ctx.count("speed_tie_repeats_compared", 3.0);
        ctx.nontrivial(mix(&[37, nl as u64, (s * 1000.0) as u64]));
    });
    // a batch synthesis between two steps of a live generator changes nothing for that
    // generator — also when every sample is in the subnormal range (a rendering must not leave
    // the thread's floating-point environment changed)
    let n = ctx.n(6, 60);
    ctx.run_cases("batch-between-steps", n, false, |ctx, rng, idx| {
        // (the control word is put back to the default before anything is computed: the tiny
        // gain itself is a subnormal number)
        let default_before = fp_control_word();
        reset_fp_control_word();
        let mut e = env.load_bundled();
        let v = if idx % 2 == 0 { -6350.0 } else { rng.uniform(-6380.0, -6200.0) };
        e.condition.set_volume(v);
        let labels = env.corpus.random_utterance(rng, 2, 4);
        let run = |interrupt: bool| -> Option<Vec<f64>> {
            let mut g = e.generator(labels.clone()).ok()?;
            let fp = g.fperiod();
            let mut buf = vec![0.0; fp];
            let mut out = Vec::new();
            let mut k = 0;
            while g.generate_step(&mut buf) > 0 {
                out.extend_from_slice(&buf);
                k += 1;
                if interrupt && k == 3 {
                    let _ = e.synthesize(labels.clone());
                }
            }
            Some(out)
        };
        // each variant starts from the floating-point control word a new process has (earlier
        // cases of this shard have rendered on this thread, and new threads inherit the word)
        let plain = run(false);
        reset_fp_control_word();
        let interrupted = run(true);
        let after = fp_control_word();
        reset_fp_control_word();
        if default_before != FP_DEFAULT || after != FP_DEFAULT {
            ctx.count("fp_control_word_found_changed", 1.0);
        }
        match (plain, interrupted) {
            (Some(a), Some(b)) => {
                ctx.count("stepped_renderings_with_a_batch_in_between", 1.0);
                if a.iter().any(|x| *x != 0.0 && x.abs() < f64::MIN_POSITIVE) {
                    ctx.count("of_which_with_subnormal_samples", 1.0);
                }
                if !bits_eq(&a, &b) {
                    let at = a.iter().zip(&b).position(|(x, y)| x.to_bits() != y.to_bits());
                    ctx.violation("batch-synthesis-changes-a-live-generator", J::obj().set("volume_db", v).set("first_differing_sample", at.map(|x| x as f64).unwrap_or(-1.0)).set("len", a.len()).set("len_interrupted", b.len()));
                }
            }
            _ => ctx.violation("synthesize-err", J::from("batch-between-steps")),
        }
        ctx.nontrivial(mix(&[41, idx as u64]));
    });
    // other engines with *other settings* speak the same utterance in between: an engine's
    // output depends on its own settings only (nothing keyed on the utterance alone survives)
    let n = ctx.n(24, 500);
    ctx.run_cases("other-engines-in-between", n, false, |ctx, rng, idx| {
        use std::sync::Arc;
        let labels = env.corpus.random_utterance(rng, 3, 8);
        if idx % 2 == 0 {
            // (a) time-stamped lines under alignment; another engine with another frame period
            // (or rate) speaks them first. The same stamps spelled "123.0" instead of "123" are the
            // same utterance.
            let mut t = 0u64;
            let stamps: Vec<(u64, u64)> = labels
                .iter()
                .map(|_| {
                    let a = t;
                    t += rng.range(400_000, 2_500_000) as u64;
                    (a, t)
                })
                .collect();
            let plain: Vec<String> = labels.iter().zip(&stamps).map(|(l, (a, b))| format!("{} {} {}", a, b, l)).collect();
            let dotted: Vec<String> = labels.iter().zip(&stamps).map(|(l, (a, b))| format!("{}.0 {}.0 {}", a, b, l)).collect();
            let mut first = env.load_bundled();
            first.condition.set_phoneme_alignment_flag(true);
            if idx % 4 == 0 {
                first.condition.set_fperiod(*rng.pick(&[200usize, 120, 300]));
            } else {
                first.condition.set_sampling_frequency(*rng.pick(&[16000usize, 22050, 96000]));
            }
            let _ = first.synthesize(plain.clone());
            let mut e = env.load_bundled();
            e.condition.set_phoneme_alignment_flag(true);
            match (e.synthesize(plain.clone()), e.synthesize(dotted)) {
                (Ok(a), Ok(b)) => {
                    ctx.count("utterances_spoken_by_another_engine_first", 1.0);
                    if !bits_eq(&a, &b) {
                        ctx.violation(
                            "output-depends-on-what-another-engine-spoke-before",
                            J::obj().set("what", "time-stamped lines, alignment on; another engine with another frame period / rate spoke the same lines first; the same stamps spelled with '.0' give another waveform").set("len", a.len()).set("len_other_spelling", b.len()),
                        );
                    }
                }
                _ => ctx.violation("synthesize-err", J::from("other-engines-in-between (a)")),
            }
        } else {
            // (b) two engines over the same two voices with different interpolation weights
            let Ok(v) = jbonsai::model::load_htsvoice_file(&env.bundled_path) else { return };
            let bytes2 = voicegen::perturb(&env.bundled_bytes, rng, 0.3);
            let p2 = env.voice_file(&bytes2);
            let v2 = jbonsai::model::load_htsvoice_file(&p2);
            env.remove(&p2);
            let Ok(v2) = v2 else { return };
            let voices = vec![Arc::new(v), Arc::new(v2)];
            let (Ok(mut e1), Ok(mut e2)) = (crate::env::engine_from_voices(voices.clone()), crate::env::engine_from_voices(voices)) else { return };
            let w1 = *rng.pick(&[[0.7, 0.3], [0.2, 0.8], [0.9, 0.1]]);
            let w2 = *rng.pick(&[[0.5, 0.5], [0.4, 0.6], [1.0, 0.0]]);
            for (e, w) in [(&mut e1, w1), (&mut e2, w2)] {
                let iw = e.condition.get_interporation_weight_mut();
                let _ = iw.set_duration(&w);
                for s in 0..3 {
                    let _ = iw.set_parameter(s, &w);
                    let _ = iw.set_gv(s, &w);
                }
            }
            let other = env.corpus.random_utterance(rng, 2, 4);
            let Ok(r1) = e1.synthesize(labels.clone()) else {
                ctx.violation("synthesize-err", J::from("other-engines-in-between (b)"));
                return;
            };
            let _ = e2.synthesize(other);
            let _ = e2.synthesize(labels.clone());
            match e1.synthesize(labels.clone()) {
                Ok(r2) => {
                    ctx.count("utterances_spoken_by_another_engine_in_between", 1.0);
                    if !bits_eq(&r1, &r2) {
                        ctx.violation(
                            "output-depends-on-what-another-engine-spoke-before",
                            J::obj().set("what", "two voices; another engine with other interpolation weights spoke the same utterance in between; repeating the call gives another waveform").set("weights", fvec(&w1, 4)).set("weights_of_the_other_engine", fvec(&w2, 4)),
                        );
                    }
                }
                Err(_) => ctx.violation("synthesize-err", J::from("other-engines-in-between (b)")),
            }
        }
        ctx.nontrivial(mix(&[43, idx as u64]));
    });
    // a setting is changed while a generator for the same utterance is still alive: the next
    // synthesis uses the new setting in full (equal to a fresh engine given the final settings),
    // and the live generator finishes with the settings it was opened under
    let n = ctx.n(48, 1000);
    ctx.run_cases("setting-changed-under-a-live-generator", n, false, |ctx, rng, idx| {
        let labels = env.corpus.random_utterance(rng, 2, 6);
        let mut e = env.load_bundled();
        let mut fresh = env.load_bundled();
        if idx % 3 == 0 {
            let w0 = rng.uniform(0.2, 1.8);
            e.condition.set_gv_weight(0, w0);
            fresh.condition.set_gv_weight(0, w0);
        }
        let Ok(before) = e.synthesize(labels.clone()) else { return };
        let Ok(mut g) = e.generator(labels.clone()) else { return };
        let fp = g.fperiod();
        let mut head = vec![0.0; fp];
        let steps = rng.range(0, 3);
        let mut pulled: Vec<f64> = Vec::new();
        for _ in 0..steps {
            if g.generate_step(&mut head) > 0 {
                pulled.extend_from_slice(&head);
            }
        }
        let what = match idx % 6 {
            0 | 3 => {
                let w = rng.uniform(0.1, 1.9);
                e.condition.set_gv_weight(0, w);
                fresh.condition.set_gv_weight(0, w);
                format!("set_gv_weight(0, {})", w)
            }
            1 => {
                let w = rng.uniform(0.1, 1.9);
                e.condition.set_gv_weight(1, w);
                fresh.condition.set_gv_weight(1, w);
                format!("set_gv_weight(1, {})", w)
            }
            2 => {
                let t = rng.uniform(0.2, 0.9);
                e.condition.set_msd_threshold(1, t);
                fresh.condition.set_msd_threshold(1, t);
                format!("set_msd_threshold(1, {})", t)
            }
            4 => {
                let b = rng.uniform(0.05, 0.5);
                e.condition.set_beta(b);
                fresh.condition.set_beta(b);
                format!("set_beta({})", b)
            }
            _ => {
                let h = rng.uniform(-6.0, 6.0);
                e.condition.set_additional_half_tone(h);
                fresh.condition.set_additional_half_tone(h);
                format!("set_additional_half_tone({})", h)
            }
        };
        let (Ok(a), Ok(b)) = (if idx % 2 == 0 { e.synthesize(labels.clone()) } else { e.clone().synthesize(labels.clone()) }, fresh.synthesize(labels.clone())) else {
            ctx.violation("synthesize-err", J::from("setting-changed-under-a-live-generator"));
            return;
        };
        ctx.count("syntheses_after_a_setting_changed_under_a_live_generator", 1.0);
        if !bits_eq(&a, &b) {
            ctx.violation(
                "output-differs-from-fresh-engine",
                J::obj().set("what", "a generator for the same utterance was alive while the setting was changed").set("setter", what.clone()).set("frames_pulled_before", steps).set("len", a.len()).set("reference_len", b.len()),
            );
            return;
        }
        pulled.extend(g.generate_all());
        if !bits_eq(&pulled, &before) {
            ctx.violation(
                "live-generator-affected-by-a-later-setter",
                J::obj().set("setter", what).set("frames_pulled_before", steps).set("len", pulled.len()).set("reference_len", before.len()),
            );
        }
        ctx.nontrivial(mix(&[47, idx as u64]));
    });
    // the tiny-voice thread workload also runs natively (and under TSan)
    ctx.run_cases("tiny-threads", 4, true, |ctx, _rng, idx| {
        miri_threads(ctx, idx);
    });
}
