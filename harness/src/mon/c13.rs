//! C13 — the LSP (MGLSA) synthesis filter realises the model spectrum.

use crate::ctx::Ctx;
use crate::json::{fvec, J};
use crate::mon::c06::{alpha_pick, rate_pick};
use crate::pulse::steady_state;
use crate::refimpl::{lsp_to_lpc, poly_mag, warp};
use crate::rng::{mix, Rng};
use jbonsai::vocoder::Vocoder;
use std::f64::consts::PI;

/// increasing LSP set in (0, pi) with every gap (incl. to 0 and pi) >= 1.001 * pi / (4 (m+1))
pub fn random_lsp(rng: &mut Rng, m: usize) -> Vec<f64> {
    let min_gap = 1.001 * PI / (4.0 * (m as f64 + 1.0));
    let free = PI - (m as f64 + 1.0) * min_gap;
    let conc = *rng.pick(&[0.3, 1.0, 1.0, 3.0]);
    let mut e: Vec<f64> = (0..=m).map(|_| (-(1.0 - rng.f64()).ln()).powf(1.0 / conc)).collect();
    let s: f64 = e.iter().sum();
    for x in e.iter_mut() {
        *x = min_gap + free * *x / s;
    }
    let mut w = Vec::with_capacity(m);
    let mut acc = 0.0;
    for g in e.iter().take(m) {
        acc += g;
        w.push(acc);
    }
    w
}

/// The one listed finding: an extreme clustered order-23 set at stage 4 whose model spectrum
/// spans 154 nepers; the double-precision direct-form realisation diverges.
pub const KNOWN_EXTREME: [f64; 23] = [
    0.032765995731864686, 0.06563472528126021, 0.09839283154171408, 0.13166587615779132, 0.16489824256279167,
    0.24650106400864896, 0.30954228045178545, 0.34230932460564745, 0.37509389411695376, 0.4085464604386945,
    0.44494488763594303, 0.532324875503064, 0.5652113119135628, 0.5980259280376192, 0.6310532887208348,
    0.6655144939808695, 0.698355182250124, 0.7322344397205196, 0.8662451995399922, 0.9176780463285076,
    0.9825066642678448, 1.0154989293235457, 1.276175322081571,
];

/// Dynamic range (nepers) of ONE cascaded section 1/|A| above which a diverging response is
/// (or a settled but inaccurate one) is classified as the listed "beyond double-precision
/// direct form" finding. Measured over 60 000 thorough cases (seeds 2 and 3): every accurate
/// response had <= 27.2 nepers per section, every diverging one >= 30.9, and the one settled
/// but inaccurate one (seed 3, idx 13865: 0.29 neper at the peak) had 33.8 (e^28 is about 2^40:
/// min|A| / sum|a_k| then approaches the f64 epsilon, so the coefficients cannot carry the peak).
pub const F64_SECTION_RANGE_NEPERS: f64 = 28.0;

/// The same class expressed through the quantity that actually limits a double-precision
/// direct form: cond = s * eps * sum|a_k| / min|A| is the relative error one rounding of the
/// coefficients causes at the spectral peak, summed over the s sections. The recursions that
/// produce the coefficients amplify it by up to about ten (measured: cond 1.36e-4 -> 1.2e-3
/// neper at thorough seed 4, idx 25243, order 18, stage 4, 25.8 nepers per section; cond 0.22
/// -> 0.29 neper at seed 3, idx 13865), so the property's 0.001-neper bound cannot be met by
/// any f64 direct form once cond exceeds 1e-4.
pub const F64_CONDITION_LIMIT: f64 = 1e-4;

pub fn run(ctx: &mut Ctx) {
    ctx.run_cases("known-extreme", 1, true, |ctx, _rng, idx| {
        one_case(ctx, idx, KNOWN_EXTREME.to_vec(), 4, 0.4988413339439832, true, 44100, 0.6103194783938943);
    });
    // end-to-end leg: LSP voices (stage 1..4, either gain convention, every option order in
    // the header) through the engine; the stage / gain convention / alpha the vocoder really
    // uses must be the file's (waveform == hooked trajectories rendered with the header's)
    let env = crate::env::Env::new(ctx);
    let n = ctx.n(48, 1500);
    ctx.run_cases("engine", n, false, |ctx, rng, idx| {
        let mut o = crate::voicegen::VoiceOpts::random(rng);
        o.stage = 1 + idx % 4;
        o.ln_gain = (idx / 4) % 2 == 1;
        o.opt_order = (idx / 8) % 6;
        let spec = crate::voicegen::generate(&o, &env.pool, rng);
        let bytes = crate::voicegen::write(&spec);
        let rv = match crate::voiceread::read_voice(&bytes) {
            Ok(r) => r,
            Err(e) => {
                ctx.inconclusive(&format!("reference reader on generated voice: {}", e));
                return;
            }
        };
        let p = env.voice_file(&bytes);
        crate::mon::c04::check_engine_defaults(ctx, &rv, &p);
        ctx.count("lsp_voices_through_the_engine", 1.0);
        ctx.nontrivial(mix(&[0xe9, o.stage as u64, o.ln_gain as u64, o.opt_order as u64]));
        env.remove(&p);
    });
    let n = ctx.n(1920, 30000);
    ctx.run_cases("lsp", n, false, |ctx, rng, idx| {
        let m = if idx % 9 == 0 { *rng.pick(&[2usize, 3, 23, 24]) } else { rng.range(2, 24) };
        let stage = 1 + idx % 4;
        let alpha = alpha_pick(rng);
        let log_gain = (idx / 4) % 2 == 1;
        let rate = rate_pick(rng, idx / 8);
        let mut alpha = alpha;
        let mut w = random_lsp(rng, m);
        if idx % 16 == 7 && m % 2 == 0 {
            // a set that is mirror-symmetric about pi/2, bit-exactly in its cosines, without
            // warping: A(z) is then a polynomial in z^-2 and every other response sample is 0
            alpha = 0.0;
            let min_gap = 1.001 * PI / (4.0 * (m as f64 + 1.0));
            let mut half: Vec<f64> = Vec::new();
            let mut lo = min_gap;
            for k in 0..m / 2 {
                let hi = PI / 2.0 - min_gap * (m / 2 - k) as f64;
                let mut pick = None;
                for _ in 0..64 {
                    let x = rng.uniform(lo, hi.max(lo));
                    if (-(x.cos())).to_bits() == (PI - x).cos().to_bits() {
                        pick = Some(x);
                        break;
                    }
                }
                let Some(x) = pick else { break };
                half.push(x);
                lo = x + min_gap;
            }
            if half.len() == m / 2 && half.last().map(|x| PI / 2.0 - x >= min_gap / 2.0).unwrap_or(false) {
                let mut sym = half.clone();
                sym.extend(half.iter().rev().map(|x| PI - x));
                if sym.windows(2).all(|p| p[1] - p[0] >= min_gap) {
                    w = sym;
                    ctx.count("mirror_symmetric_sets", 1.0);
                }
            }
        }
        // an almost equally spaced set (an almost flat spectrum: every coefficient of A(z) is
        // tiny, their ripple is still several thousandths of a neper at the higher stages)
        if idx % 16 == 11 {
            let amp = *rng.pick(&[2e-4, 1e-4, 5e-4, 1e-3, 3e-5]);
            let f = rng.uniform(0.3, 1.1);
            w = (1..=m).map(|i| i as f64 * PI / (m as f64 + 1.0) + amp * (f * (i * i) as f64).sin()).collect();
            ctx.count("almost_equally_spaced_sets", 1.0);
        }
        // (a gain of exactly one is a corner of the gain normalisation)
        // (the filter is linear in K: very quiet and very loud voices as well)
        let k = if idx % 10 == 3 {
            1.0
        } else if idx % 3 == 1 {
            // (down to e^-28 in either convention)
            rng.log_uniform(if idx % 2 == 0 { 1e-6 } else { 7e-13 }, 400.0)
        } else {
            rng.log_uniform(0.2, 5.0)
        };
        one_case(ctx, idx, w, stage, alpha, log_gain, rate, k);
    });
}

#[allow(clippy::too_many_arguments)]
fn one_case(ctx: &mut Ctx, idx: usize, w: Vec<f64>, stage: usize, alpha: f64, log_gain: bool, rate: usize, k: f64) {
    {
        let m = w.len();
        let mut spec = vec![if log_gain { k.ln() } else { k }];
        spec.extend(&w);
        let p = rate / 20;
        let voc = Vocoder::new(m + 1, 0, stage, log_gain, rate, alpha, 0.0, 1.0, p);
        let st = steady_state(voc, &spec, p, 96, 1e-11);
        let descr = || {
            J::obj()
                .set("m", m)
                .set("stage", stage)
                .set("alpha", alpha)
                .set("log_gain", log_gain)
                .set("rate", rate)
                .set("gain", k)
                .set("lsp", fvec(&w, 32))
        };
        let a = lsp_to_lpc(&w);
        // model spectrum on a fine grid: dynamic range and peak of K/|A|^s
        let grid: Vec<f64> = (0..=4096)
            .map(|i| k.ln() - stage as f64 * poly_mag(&a, PI * i as f64 / 4096.0).ln())
            .collect();
        let gmax = grid.iter().cloned().fold(f64::NEG_INFINITY, f64::max);
        let gmin = grid.iter().cloned().fold(f64::INFINITY, f64::min);
        // conditioning of the direct form in f64: the coefficients a_k are O(sum|a_k|), the value
        // they have to produce at the spectral peak is min|A|; the s cascaded sections add up
        let amin = (0..=4096).map(|i| poly_mag(&a, PI * i as f64 / 4096.0)).fold(f64::INFINITY, f64::min);
        let cond = stage as f64 * f64::EPSILON * a.iter().map(|x| x.abs()).sum::<f64>() / amin;
        let beyond_f64 = (gmax - gmin) / stage as f64 > F64_SECTION_RANGE_NEPERS || cond > F64_CONDITION_LIMIT;
        if std::env::var("JBV_DEBUG").is_ok() {
            eprintln!("DBG idx={} m={} stage={} dyn={:.1} finite={} conv={} growing={} frames={}", idx, m, stage, gmax - gmin, st.finite, st.converged, st.growing(), st.frames_used);
        }
        if !st.finite {
            let sig = if beyond_f64 { "non-finite-response:section-dynamic-range-beyond-f64-direct-form" } else { "non-finite-response" };
            ctx.violation(sig, descr().set("frames", st.frames_used).set("model_dynamic_range_nepers", gmax - gmin).set("per_section_nepers", (gmax - gmin) / stage as f64));
            return;
        }
        if !st.converged {
            if st.growing() {
                let sig = if beyond_f64 { "non-finite-response:section-dynamic-range-beyond-f64-direct-form" } else { "response-not-decaying" };
                ctx.violation(sig, descr().set("peak", st.peak).set("frames", st.frames_used).set("model_dynamic_range_nepers", gmax - gmin).set("per_section_nepers", (gmax - gmin) / stage as f64));
            } else {
                ctx.count("not_converged_skipped", 1.0);
            }
            return;
        }
        ctx.count("responses_measured", 1.0);
        let hs = st.harmonics(if idx % 2 == 0 { 257 } else { 65 });
        let model: Vec<f64> = hs
            .iter()
            .map(|j| k.ln() - stage as f64 * poly_mag(&a, warp(st.omega(*j), alpha)).ln())
            .collect();
        let peak = model.iter().cloned().fold(f64::NEG_INFINITY, f64::max);
        let mut worst = 0.0f64;
        let mut worst_w = 0.0;
        let mut compared = 0;
        for (j, want) in hs.iter().zip(&model) {
            if *want < peak - 11.5 {
                continue;
            }
            compared += 1;
            let e = (st.log_mag(*j) - want).abs();
            if e > worst || e.is_nan() {
                worst = e;
                worst_w = st.omega(*j);
            }
        }
        ctx.count("frequencies_compared", compared as f64);
        ctx.max("worst_error_nepers", worst);
        ctx.max("frames_to_steady_state", st.frames_used as f64);
        // beyond the listed per-section range the f64 coefficients themselves cannot carry the
        // spectrum (rounding the exact A(z) to f64 already moves the peak by > 0.001 neper)
        let beyond = beyond_f64;
        if !(worst <= 0.001) {
            ctx.violation(if beyond { "spectrum-mismatch:section-dynamic-range-beyond-f64-direct-form" } else { "spectrum-mismatch" }, descr().set("per_section_nepers", (gmax - gmin) / stage as f64).set("f64_condition", cond).set("worst_error_nepers", worst).set("at_omega", worst_w));
        }
        // the response to the very first pulse (first frame) must realise the same spectrum
        if st.first_decayed {
            let mut worst1 = 0.0f64;
            for (j, want) in hs.iter().zip(&model) {
                if *want < peak - 11.5 {
                    continue;
                }
                let e = (st.first_log_mag(st.omega(*j)) - want).abs();
                if e > worst1 || e.is_nan() {
                    worst1 = e;
                }
            }
            ctx.count("first_frame_responses_measured", 1.0);
            ctx.max("worst_first_frame_error_nepers", worst1);
            if !(worst1 <= 0.001) {
                ctx.violation(if beyond { "first-frame-spectrum-mismatch:section-dynamic-range-beyond-f64-direct-form" } else { "first-frame-spectrum-mismatch" }, descr().set("per_section_nepers", (gmax - gmin) / stage as f64).set("worst_error_nepers", worst1));
            }
        }
        let dyn_range = peak - model.iter().cloned().fold(f64::INFINITY, f64::min);
        if dyn_range >= 1.0 {
            ctx.nontrivial(mix(&[m as u64, stage as u64, (alpha * 10.0) as u64, log_gain as u64, rate as u64]));
        }
        if ctx.want_sample() {
            ctx.sample(descr().set("worst_error_nepers", worst).set("dynamic_range_nepers", dyn_range).set("frames", st.frames_used));
        }
    }
}
