//! C07 — excitation has the model's pitch and unit power (identity filter: all-zero spectrum).

use crate::ctx::Ctx;
use crate::json::{fvec, J};
use crate::rng::{mix, Rng};
use crate::synth::NODATA;
use jbonsai::vocoder::Vocoder;

const MIN_F0: f64 = 20.0;
const MAX_F0: f64 = 20000.0;

/// Render `lf0s` (one value per frame) through an identity filter; lpf rows per frame.
fn render(rate: usize, fperiod: usize, nlpf: usize, lf0s: &[f64], lpf: &[Vec<f64>]) -> Vec<f64> {
    let mut v = Vocoder::new(2, nlpf, 0, false, rate, 0.0, 0.0, 1.0, fperiod);
    let zeros = [0.0, 0.0];
    let mut out = Vec::with_capacity(fperiod * lf0s.len());
    let mut buf = vec![0.0; fperiod];
    let empty: Vec<f64> = vec![];
    for (t, l) in lf0s.iter().enumerate() {
        let row = if nlpf == 0 { &empty } else { &lpf[t] };
        v.synthesize(*l, &zeros, row, &mut buf);
        out.extend_from_slice(&buf);
    }
    out
}

fn pulse_positions(x: &[f64]) -> Vec<usize> {
    x.iter().enumerate().filter(|(_, v)| **v != 0.0).map(|(i, _)| i).collect()
}

fn clampf0(f: f64) -> f64 {
    f.clamp(MIN_F0, MAX_F0)
}

pub fn run(ctx: &mut Ctx) {
    const RATES: [usize; 6] = [8000, 16000, 22050, 44100, 48000, 96000];

    // ---------------------------------------------------------------- constant F0
    let n = ctx.n(1200, 20000);
    ctx.run_cases("constant", n, false, |ctx, rng, idx| {
        let rate = if idx % 7 == 6 { rng.range(8000, 96000) } else { RATES[idx % 6] };
        let fperiod = rng.range(40, 480);
        let f0 = match idx % 6 {
            0 => MIN_F0,
            1 => rate as f64 / 2.0,
            2 => rate as f64 / rng.range(2, 400) as f64, // integer period
            5 => {
                // integer period that is a multiple or a divisor of the frame period: pulses
                // fall on frame boundaries
                let t = match rng.below(4) {
                    0 => fperiod,
                    1 => 2 * fperiod,
                    2 => 3 * fperiod,
                    _ => {
                        let divs: Vec<usize> = (2..=fperiod / 2).filter(|d| fperiod % d == 0).collect();
                        if divs.is_empty() { fperiod } else { *rng.pick(&divs) }
                    }
                };
                (rate as f64 / t as f64).clamp(MIN_F0, rate as f64 / 2.0)
            }
            _ => rng.log_uniform(MIN_F0, rate as f64 / 2.0),
        };
        // T0 = rate / F0 with F0 = exp(log-F0) limited to 20 Hz..20 kHz, evaluated in f64 from
        // the log-F0 value that is actually handed to the vocoder
        let lf0 = f0.ln();
        let t0 = rate as f64 / clampf0(lf0.exp());
        let frames = ((60.0 * t0 / fperiod as f64).ceil() as usize).clamp(4, 400);
        let x = render(rate, fperiod, 0, &vec![lf0; frames], &[]);
        let pos = pulse_positions(&x);
        let descr = |extra: J| J::obj().set("rate", rate).set("fperiod", fperiod).set("f0", f0).set("T0", t0).set("frames", frames).set("observed", extra);
        if pos.len() < 2 {
            ctx.violation("too-few-pulses", descr(J::obj().set("pulses", pos.len())));
            return;
        }
        if pos[0] != 0 {
            ctx.violation("first-pulse-late", descr(J::obj().set("first", pos[0])));
        }
        // a period that is not exactly an integer but within 2 ulp of one may legitimately be
        // evaluated on either side of it
        let (lo, hi) = if t0.fract() == 0.0 {
            (t0 as usize, t0 as usize)
        } else {
            ((t0 * (1.0 - 2.0 * f64::EPSILON)).floor() as usize, (t0 * (1.0 + 2.0 * f64::EPSILON)).ceil() as usize)
        };
        for (gi, w) in pos.windows(2).enumerate() {
            let gap = w[1] - w[0];
            if gi == 0 && lo == hi && gap + 1 == lo {
                // listed finding: with an integer period the pulse after the onset pulse comes one sample early
                ctx.violation("pulse-gap:first-gap-after-onset-is-T0-minus-1-for-integer-T0", descr(J::obj().set("gap", gap).set("T0", t0)));
                continue;
            }
            if gap < lo || gap > hi {
                ctx.violation("pulse-gap", descr(J::obj().set("gap", gap).set("at", w[0]).set("allowed", J::Arr(vec![J::from(lo), J::from(hi)]))));
                return;
            }
        }
        let h = t0.sqrt();
        for p in &pos {
            if (x[*p] - h).abs() > 1e-12 * h {
                ctx.violation("pulse-height", descr(J::obj().set("height", x[*p]).set("expected", h).set("at", *p)));
                return;
            }
        }
        // mean power over whole periods
        let span = pos[pos.len() - 1] - pos[0];
        let power: f64 = pos[..pos.len() - 1].iter().map(|p| x[*p] * x[*p]).sum::<f64>() / span as f64;
        let npulse = (pos.len() - 1) as f64;
        ctx.max("worst_power_deviation_x_pulses", (power - 1.0).abs() * npulse);
        if (power - 1.0).abs() > 2.0 / npulse {
            ctx.violation("mean-power", descr(J::obj().set("power", power).set("pulses", npulse)));
        }
        // average period
        let avg = span as f64 / npulse;
        if (avg - t0).abs() > 1.0 / npulse + 1e-9 {
            ctx.violation("average-period", descr(J::obj().set("average_gap", avg)));
        }
        ctx.count("pulses_measured", pos.len() as f64);
        if pos.len() >= 10 {
            ctx.nontrivial(mix(&[1, rate as u64, fperiod as u64, (f0 * 100.0) as u64]));
        }
        if ctx.want_sample() {
            ctx.sample(descr(J::obj().set("pulses", pos.len()).set("power", power).set("first_gaps", J::from(pos.windows(2).take(5).map(|w| w[1] - w[0]).collect::<Vec<_>>()))));
        }
    });

    // ---------------------------------------------------------------- slow drift, then constant
    // log-F0 creeps by a tiny step per frame over thousands of frames and is then held: the held
    // stretch must have the pitch of the value that is held, not of where the creep started
    let n = ctx.n(64, 1200);
    ctx.run_cases("slow-drift", n, false, |ctx, rng, idx| {
        let rate = RATES[idx % 6];
        let fperiod = rng.range(20, 60);
        let t_start = rng.uniform(40.0, 900.0f64.min(rate as f64 / 25.0));
        let step = *rng.pick(&[8e-8, 9.9e-8, 5e-8, 2e-8, 1.5e-7, 1e-9, 3e-7]) * if rng.chance(0.5) { 1.0 } else { -1.0 };
        let creep = if !ctx.quick() { rng.range(1500, 12000) } else { rng.range(1500, 4000) };
        let held = ((12.0 * t_start / fperiod as f64).ceil() as usize).max(6) + 3;
        let l0 = (rate as f64 / t_start).ln();
        let mut lf0s: Vec<f64> = (0..creep).map(|k| l0 + step * k as f64).collect();
        let last = *lf0s.last().unwrap();
        lf0s.extend(std::iter::repeat(last).take(held));
        let x = render(rate, fperiod, 0, &lf0s, &[]);
        let t0 = rate as f64 / clampf0(last.exp());
        let tail_from = (creep + 2) * fperiod;
        let pos: Vec<usize> = pulse_positions(&x).into_iter().filter(|p| *p >= tail_from).collect();
        let descr = |extra: J| {
            J::obj()
                .set("rate", rate)
                .set("fperiod", fperiod)
                .set("first_lf0", l0)
                .set("step_per_frame", step)
                .set("creeping_frames", creep)
                .set("held_frames", held)
                .set("T0_of_the_held_value", t0)
                .set("T0_at_the_start", t_start)
                .set("observed", extra)
        };
        if pos.len() < 3 {
            ctx.violation("too-few-pulses", descr(J::obj().set("pulses", pos.len())));
            return;
        }
        let h = t0.sqrt();
        for p in &pos {
            if (x[*p] - h).abs() > 1e-12 * h {
                ctx.violation("held-pitch-after-slow-drift:pulse-height", descr(J::obj().set("height", x[*p]).set("expected", h).set("at", *p)));
                return;
            }
        }
        let (lo, hi) = ((t0 * (1.0 - 2.0 * f64::EPSILON)).floor() as usize, (t0 * (1.0 + 2.0 * f64::EPSILON)).ceil() as usize);
        for w in pos.windows(2) {
            let gap = w[1] - w[0];
            if gap < lo || gap > hi {
                ctx.violation("held-pitch-after-slow-drift:pulse-gap", descr(J::obj().set("gap", gap).set("at", w[0])));
                return;
            }
        }
        let npulse = (pos.len() - 1) as f64;
        let avg = (pos[pos.len() - 1] - pos[0]) as f64 / npulse;
        if (avg - t0).abs() > 1.0 / npulse + 1e-9 {
            ctx.violation("held-pitch-after-slow-drift:average-period", descr(J::obj().set("average_gap", avg)));
        }
        ctx.count("held_stretches_after_a_slow_drift", 1.0);
        ctx.count("pulses_measured", pos.len() as f64);
        ctx.max("largest_total_drift_in_log_f0", (step * creep as f64).abs());
        ctx.nontrivial(mix(&[7, rate as u64, fperiod as u64, creep as u64]));
        if ctx.want_sample() {
            ctx.sample(descr(J::obj().set("pulses", pos.len())));
        }
    });

    // ---------------------------------------------------------------- F0 limits (clamp)
    ctx.run_cases("clamp", 24, true, |ctx, _rng, idx| {
        let rate = RATES[idx % 6];
        let fperiod = 80 + 40 * (idx / 6);
        let frames = 30;
        let cases: [(f64, f64); 4] = [(5.0, MIN_F0), (19.99, MIN_F0), (25000.0, MAX_F0), (1e9, MAX_F0)];
        let (f, lim) = cases[idx / 6];
        let a = render(rate, fperiod, 0, &vec![f.ln(); frames], &[]);
        let b = render(rate, fperiod, 0, &vec![lim.ln(); frames], &[]);
        let same = a.iter().zip(&b).all(|(x, y)| x.to_bits() == y.to_bits());
        ctx.count("clamp_checks", 1.0);
        if !same {
            ctx.violation("f0-not-limited", J::obj().set("rate", rate).set("f0", f).set("limit", lim));
        }
        ctx.nontrivial(mix(&[2, idx as u64]));
    });

    // ---------------------------------------------------------------- unvoiced noise statistics
    let n = ctx.n(24, 200);
    ctx.run_cases("noise", n, false, |ctx, rng, idx| {
        let rate = if idx % 7 == 6 { rng.range(8000, 96000) } else { RATES[idx % 6] };
        let fperiod = rng.range(40, 480);
        let frames = (40000 / fperiod + 1) * (1 + idx % 3);
        let x = render(rate, fperiod, 0, &vec![NODATA; frames], &[]);
        let nn = x.len() as f64;
        let mean = x.iter().sum::<f64>() / nn;
        let var = x.iter().map(|v| (v - mean) * (v - mean)).sum::<f64>() / nn;
        // lag-1 autocorrelation as a whiteness indicator
        let ac1 = x.windows(2).map(|w| (w[0] - mean) * (w[1] - mean)).sum::<f64>() / (nn * var);
        ctx.max("noise_abs_mean_x_sqrtN", mean.abs() * nn.sqrt());
        ctx.max("noise_var_dev_x_sqrtN", (var - 1.0).abs() * nn.sqrt());
        ctx.max("noise_lag1_x_sqrtN", ac1.abs() * nn.sqrt());
        let d = J::obj().set("rate", rate).set("fperiod", fperiod).set("N", x.len()).set("mean", mean).set("variance", var).set("lag1", ac1);
        if mean.abs() > 5.0 / nn.sqrt() {
            ctx.violation("noise-mean", d.clone());
        }
        if (var - 1.0).abs() > 5.0 * (2.0 / nn).sqrt() {
            ctx.violation("noise-variance", d.clone());
        }
        if ac1.abs() > 5.0 / nn.sqrt() {
            ctx.violation("noise-not-white", d.clone());
        }
        ctx.count("noise_samples", nn);
        ctx.nontrivial(mix(&[3, rate as u64, fperiod as u64, frames as u64]));
        if ctx.want_sample() {
            ctx.sample(d);
        }
    });

    // ---------------------------------------------------------------- glides and V/UV switches
    let n = ctx.n(1200, 20000);
    ctx.run_cases("glide", n, false, |ctx, rng, idx| {
        let rate = if idx % 7 == 6 { rng.range(8000, 96000) } else { RATES[idx % 6] };
        let fperiod = rng.range(40, 480);
        let frames = rng.range(4, 40);
        // random F0 walk with unvoiced gaps
        let mut f = rng.log_uniform(60.0, (rate as f64 / 4.0).min(800.0));
        // one case in five jumps between very low and very high F0 (the period falls by more
        // than one new period per sample: the counter then holds several periods at once)
        let extreme = idx % 5 == 4;
        let lf0s: Vec<f64> = (0..frames)
            .map(|k| {
                if rng.chance(0.15) {
                    NODATA
                } else if extreme {
                    f = if k % 2 == 0 { rng.uniform(20.0, 40.0) } else { rng.uniform(rate as f64 / 8.0, rate as f64 / 2.0) };
                    f.ln()
                } else {
                    f = (f * rng.uniform(0.7, 1.4)).clamp(30.0, rate as f64 / 2.0);
                    f.ln()
                }
            })
            .collect();
        let x = render(rate, fperiod, 0, &lf0s, &[]);
        // conservation over every voiced run: the pitch counter gains 1 per sample and loses
        // height^2 (the period in force) per pulse, starts primed with the onset period and stays
        // within [0, period): sum(x^2) = samples + onset period - final counter
        {
            let mut t = 0;
            while t < frames {
                if lf0s[t] == NODATA {
                    t += 1;
                    continue;
                }
                let start = t;
                while t < frames && lf0s[t] != NODATA {
                    t += 1;
                }
                let n = ((t - start) * fperiod) as f64;
                let per = |l: f64| rate as f64 / clampf0(l.exp());
                let onset = per(lf0s[start]);
                // upper envelope of what the counter can still hold at the end of the run: it is
                // below the period in force, except for a surplus left by a falling period, which
                // drains by (period - 1) per sample
                let mut cmax = onset;
                for fr in start..t {
                    let p1 = per(lf0s[fr]);
                    let a = if fr > start { per(lf0s[fr - 1]) } else { p1 };
                    let inc = (p1 - a) / fperiod as f64;
                    for i in 0..fperiod {
                        let p = a + i as f64 * inc;
                        cmax = (cmax + 1.0).min(p).max(cmax + 1.0 - p);
                    }
                }
                let sum: f64 = x[start * fperiod..t * fperiod].iter().map(|v| v * v).sum();
                let (lo, hi) = (n + onset - cmax - 1.0, n + onset + 1e-6 * n);
                ctx.count("voiced_runs_balanced", 1.0);
                if sum < lo - 1e-6 * n || sum > hi {
                    ctx.violation(
                        "pulse-energy-not-conserved-over-a-voiced-run",
                        J::obj().set("rate", rate).set("fperiod", fperiod).set("lf0", fvec(&lf0s, 40)).set("run", J::Arr(vec![J::from(start), J::from(t)])).set("sum_of_squares", sum).set("allowed", J::Arr(vec![J::Num(lo), J::Num(hi)])),
                    );
                    return;
                }
            }
        }
        let period = |l: f64| if l == NODATA { 0.0 } else { rate as f64 / clampf0(l.exp()) };
        let descr = |extra: J| J::obj().set("rate", rate).set("fperiod", fperiod).set("lf0", fvec(&lf0s, 40)).set("observed", extra);
        let mut switches = 0;
        let mut pulses = 0;
        let mut last_pulse: Option<usize> = None;
        for t in 0..frames {
            let p1 = period(lf0s[t]);
            let p0 = if t == 0 { 0.0 } else { period(lf0s[t - 1]) };
            let seg = &x[t * fperiod..(t + 1) * fperiod];
            if p1 == 0.0 {
                // unvoiced frame: dense noise, no long runs of exact zeros
                let zeros = seg.iter().filter(|v| **v == 0.0).count();
                if zeros > fperiod / 4 {
                    ctx.violation("unvoiced-frame-not-noise", descr(J::obj().set("frame", t).set("zeros", zeros)));
                    return;
                }
                if p0 != 0.0 {
                    switches += 1;
                }
                last_pulse = None;
                continue;
            }
            if p0 == 0.0 && t > 0 {
                switches += 1;
            }
            // voiced frame: period runs linearly from a to p1 (a = p0 if the previous frame was voiced)
            let a = if p0 != 0.0 { p0 } else { p1 };
            let inc = (p1 - a) / fperiod as f64;
            if p0 == 0.0 && seg[0] == 0.0 {
                ctx.violation("no-pulse-at-voicing-onset", descr(J::obj().set("frame", t)));
                return;
            }
            for (i, v) in seg.iter().enumerate() {
                if *v == 0.0 {
                    continue;
                }
                pulses += 1;
                // height^2 = a + (i + delta) * inc for some delta in [0,1]
                let h2 = v * v;
                let (x0, x1) = (a + i as f64 * inc, a + (i + 1) as f64 * inc);
                let (lo, hi) = (x0.min(x1), x0.max(x1));
                if h2 < lo - 1e-9 * lo || h2 > hi + 1e-9 * hi {
                    ctx.violation(
                        "glide-pulse-height",
                        descr(J::obj().set("frame", t).set("sample", i).set("height_squared", h2).set("allowed", J::Arr(vec![J::Num(lo), J::Num(hi)]))),
                    );
                    return;
                }
                // gap between successive pulses lies between the smallest and largest period
                // in force over its span (+-1 sample)
                let abs = t * fperiod + i;
                if let Some(lp) = last_pulse {
                    let gap = (abs - lp) as f64;
                    let lt = lp / fperiod;
                    let mut pmin = f64::INFINITY;
                    let mut pmax: f64 = 0.0;
                    for tt in lt..=t {
                        for q in [period(lf0s[tt]), if tt > 0 { period(lf0s[tt - 1]) } else { 0.0 }] {
                            if q != 0.0 {
                                pmin = pmin.min(q);
                                pmax = pmax.max(q);
                            }
                        }
                    }
                    // steepest fall of the period over the span, in samples per sample: when the
                    // pulse fires the counter exceeds the period by less than 1 + fall, and that
                    // surplus shortens the next gap; at a fall of one or more the counter can hold
                    // several periods at once (only the conservation law above applies then)
                    let mut fall: f64 = 0.0;
                    for tt in lt.max(1)..=t {
                        let (qa, qb) = (period(lf0s[tt - 1]), period(lf0s[tt]));
                        if qa != 0.0 && qb != 0.0 {
                            fall = fall.max((qa - qb) / fperiod as f64);
                        }
                    }
                    ctx.count(if fall < 1.0 { "glide_gaps_checked" } else { "glide_gaps_steep_fall_skipped" }, 1.0);
                    if !extreme && fall < 1.0 && (gap < pmin - 1.0 - fall - 1e-9 * pmin || gap > pmax.ceil() + 1.0) {
                        ctx.violation(
                            "glide-pulse-gap",
                            descr(J::obj().set("frame", t).set("gap", gap).set("period_range", J::Arr(vec![J::Num(pmin), J::Num(pmax)]))),
                        );
                        return;
                    }
                }
                last_pulse = Some(abs);
            }
        }
        ctx.count("glide_pulses", pulses as f64);
        ctx.count("vuv_switches", switches as f64);
        if pulses >= 10 {
            ctx.nontrivial(mix(&[4, rate as u64, fperiod as u64, frames as u64, switches as u64, pulses as u64]));
        }
        if ctx.want_sample() {
            ctx.sample(descr(J::obj().set("pulses", pulses).set("vuv_switches", switches)));
        }
    });

    // ---------------------------------------------------------------- mixed excitation (low-pass stream)
    let n = ctx.n(800, 15000);
    ctx.run_cases("mixed", n, false, |ctx, rng, idx| {
        let rate = if idx % 7 == 6 { rng.range(8000, 96000) } else { RATES[idx % 6] };
        let fperiod = rng.range(40, 240);
        let frames = rng.range(3, 14);
        let l = 2 * (idx % 16) + 1; // odd orders 1..31
        let c = (l - 1) / 2;
        let mut f = rng.log_uniform(60.0, 500.0);
        let lf0s: Vec<f64> = (0..frames)
            .map(|_| {
                if rng.chance(0.25) {
                    NODATA
                } else {
                    f = (f * rng.uniform(0.8, 1.25)).clamp(40.0, 1000.0);
                    f.ln()
                }
            })
            .collect();
        let rows: Vec<Vec<f64>> = (0..frames)
            .map(|_| {
                let mut h: Vec<f64> = (0..l).map(|k| rng.normal() * 0.3 / (1.0 + (k as f64 - c as f64).abs())).collect();
                if rng.chance(0.3) {
                    h[c] += 0.5;
                }
                // taps that are exactly zero (the bundled voice has two): a few random ones, the
                // centre tap, everything but the centre, or the whole row
                match idx % 10 {
                    3 => {
                        for _ in 0..1 + l / 4 {
                            let k = rng.below(l);
                            h[k] = 0.0;
                        }
                    }
                    5 => h[c] = 0.0,
                    7 => {
                        for (k, x) in h.iter_mut().enumerate() {
                            if k != c {
                                *x = 0.0;
                            }
                        }
                    }
                    9 => h.iter_mut().for_each(|x| *x = 0.0),
                    _ => {}
                }
                h
            })
            .collect();
        let out = render(rate, fperiod, l, &lf0s, &rows);
        // pulse train: same pitch contour without a low-pass stream (noise only in unvoiced frames)
        let pt = render(rate, fperiod, 0, &lf0s, &[]);
        // noise sequence: with a low-pass stream one Gaussian sample is drawn per output sample
        let noise = render(rate, fperiod, 0, &vec![NODATA; frames], &[]);
        let total = frames * fperiod;
        let mut expect = vec![0.0f64; total + l];
        for t in 0..total {
            let fr = t / fperiod;
            let voiced = lf0s[fr] != NODATA;
            if voiced {
                let p = pt[t];
                let h = &rows[fr];
                for k in 0..l {
                    let d = if k == c { 1.0 } else { 0.0 };
                    expect[t + k] += h[k] * p + (d - h[k]) * noise[t];
                }
            } else {
                expect[t + c] += noise[t];
            }
        }
        let mut worst = 0.0f64;
        let mut at = 0;
        for t in 0..total {
            let e = (out[t] - expect[t]).abs() / (1.0 + expect[t].abs());
            if e > worst || e.is_nan() {
                worst = e;
                at = t;
            }
        }
        ctx.max("mixed_worst_error", worst);
        let switches = lf0s.windows(2).filter(|w| (w[0] == NODATA) != (w[1] == NODATA)).count();
        if !(worst <= 1e-12) {
            ctx.violation(
                "mixed-excitation-formula",
                J::obj()
                    .set("rate", rate)
                    .set("fperiod", fperiod)
                    .set("lpf_order", l)
                    .set("lf0", fvec(&lf0s, 16))
                    .set("worst_error", worst)
                    .set("at_sample", at)
                    .set("got", out[at])
                    .set("expected", expect[at]),
            );
        }
        ctx.count("mixed_samples", total as f64);
        if switches >= 1 {
            ctx.nontrivial(mix(&[5, l as u64, rate as u64, fperiod as u64, switches as u64, frames as u64]));
        }
        if ctx.want_sample() {
            ctx.sample(J::obj().set("rate", rate).set("fperiod", fperiod).set("lpf_order", l).set("frames", frames).set("vuv_switches", switches).set("worst_error", worst));
        }
    });
}

#[allow(dead_code)]
fn unused(_: &mut Rng) {}
