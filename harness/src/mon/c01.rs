//! C01 — synthesis is total and frame-exact on every supported input.

use crate::ctx::{guard, Ctx};
use crate::env::{Cond, Env};
use crate::json::J;
use crate::labels::{random_label, to_strings};
use crate::rng::{hash_str, mix, Rng};
use crate::synth::{dur_speed1, ref_label, run_with_hooks, total_at_speed, Run, NODATA};
use crate::voicegen::{self, VoiceOpts};
use crate::voiceread::{read_voice, RefVoice};
use jbonsai::Engine;
use jlabel::Label;

pub struct Case<'a> {
    pub engine: &'a Engine,
    pub refv: Option<&'a RefVoice>,
    pub labels: Vec<Label>,
    /// Some(lines) when the utterance is given as (possibly time-annotated) strings
    pub lines: Option<Vec<String>>,
    pub descr: String,
    pub cond: Cond,
    pub wellformed: bool,
}

/// spectral-shape bound per frame (stage 0): max over 64 warped frequencies of
/// |sum_{m>=1} c'_m cos(m w)|, c' after the postfilter law.
pub fn shape_bound(c: &[f64], beta: f64) -> f64 {
    let mut worst: f64 = 0.0;
    for k in 0..64 {
        let w = std::f64::consts::PI * k as f64 / 63.0;
        let mut s = 0.0;
        for (m, cm) in c.iter().enumerate().skip(1) {
            let g = if m >= 2 && beta > 0.0 && c.len() > 2 { 1.0 + beta } else { 1.0 };
            s += g * cm * (m as f64 * w).cos();
        }
        if !s.is_finite() {
            return f64::NAN;
        }
        worst = worst.max(s.abs());
    }
    worst
}

fn lsp_in_range(c: &[f64], log_gain: bool) -> bool {
    if c.iter().any(|x| !x.is_finite()) {
        return false;
    }
    if !log_gain && c[0] <= 0.0 {
        return false;
    }
    let w = &c[1..];
    if w.is_empty() {
        return true;
    }
    w[0] > 0.0 && *w.last().unwrap() < std::f64::consts::PI && w.windows(2).all(|p| p[1] > p[0])
}

pub fn check(ctx: &mut Ctx, case: &Case) -> Option<Run> {
    let engine = case.engine;
    let nstate = engine.voices.global_metadata().num_states;
    let fperiod = engine.condition.get_fperiod();
    let detail = |extra: J| -> J {
        J::obj()
            .set("voice", case.descr.clone())
            .set("cond", case.cond.to_json())
            .set(
                "labels",
                J::Arr(
                    case.lines
                        .clone()
                        .unwrap_or_else(|| to_strings(&case.labels))
                        .into_iter()
                        .take(6)
                        .map(J::Str)
                        .collect(),
                ),
            )
            .set("nlabels", case.labels.len())
            .set("observed", extra)
    };
    let r = guard(|| match &case.lines {
        Some(l) => run_with_hooks(engine, l.clone()),
        None => run_with_hooks(engine, case.labels.clone()),
    });
    let run = match r {
        Err(p) => {
            if p.in_target() {
                ctx.setadd("panic_sites", &p.sig());
                ctx.violation(
                    &p.sig(),
                    detail(J::obj().set("panic", format!("{}:{} {}", p.file, p.line, p.msg))),
                );
            } else {
                ctx.inconclusive(&format!("harness panic {}:{} {}", p.file, p.line, p.msg));
            }
            return None;
        }
        Ok(Err(e)) => {
            ctx.violation("synthesize-err-on-wellformed-labels", detail(J::obj().set("err", format!("{}", e))));
            return None;
        }
        Ok(Ok(run)) => run,
    };
    let nlab = case.labels.len();
    let total: usize = run.durations.iter().sum();
    ctx.count("frames", total as f64);
    ctx.count("samples", run.wave.len() as f64);

    // --- frame exactness
    if run.durations.len() != nlab * nstate {
        ctx.violation(
            "durations-count",
            detail(J::obj().set("durations_len", run.durations.len()).set("expected", nlab * nstate)),
        );
    }
    if run.durations.iter().any(|d| *d == 0) {
        ctx.violation("zero-duration-state", detail(J::obj().set("durations", J::from(run.durations.clone()))));
    }
    if run.wave.len() != fperiod * total {
        ctx.violation(
            "length",
            detail(J::obj().set("len", run.wave.len()).set("fperiod", fperiod).set("sum_durations", total)),
        );
    }
    if run.spectrum.len() != total || run.lf0.len() != total || run.lpf.len() != total {
        ctx.violation(
            "trajectory-length",
            detail(
                J::obj()
                    .set("spectrum", run.spectrum.len())
                    .set("lf0", run.lf0.len())
                    .set("lpf", run.lpf.len())
                    .set("sum_durations", total),
            ),
        );
    }
    if total < nlab * nstate {
        ctx.violation("fewer-frames-than-states", detail(J::obj().set("frames", total)));
    }
    // --- the same utterance pulled out of a generator (some frames stepped, the rest in one
    // go) is total and frame-exact as well
    if case.lines.is_none() && total >= 2 && total % 4 == 1 {
        let k = 1 + total % 3.min(total - 1);
        let r = guard(|| {
            let mut g = engine.generator(case.labels.clone()).map_err(|e| format!("{}", e))?;
            let mut n = 0usize;
            let mut buf = vec![0.0; fperiod];
            for _ in 0..k {
                n += g.generate_step(&mut buf);
            }
            Ok::<usize, String>(n + g.generate_all().len())
        });
        ctx.count("pulled_from_a_generator_in_two_parts", 1.0);
        match r {
            Err(p) if p.in_target() => {
                ctx.setadd("panic_sites", &p.sig());
                ctx.violation(&p.sig(), detail(J::obj().set("panic", format!("{}:{} {}", p.file, p.line, p.msg)).set("history", format!("generator, {} generate_step, generate_all", k))));
            }
            Err(p) => ctx.inconclusive(&format!("harness panic {}:{} {}", p.file, p.line, p.msg)),
            Ok(Err(e)) => ctx.violation("synthesize-err-on-wellformed-labels", detail(J::obj().set("err", e))),
            Ok(Ok(n)) => {
                if n != fperiod * total {
                    ctx.violation("length", detail(J::obj().set("len", n).set("fperiod", fperiod).set("sum_durations", total).set("history", format!("generator, {} generate_step, generate_all", k))));
                }
            }
        }
    }
    if nlab == 0 && !run.wave.is_empty() {
        ctx.violation("empty-labels-nonempty-wave", detail(J::obj().set("len", run.wave.len())));
    }

    // --- with alignment on, the frame counts follow the label times (exact-integer law on the
    // raw annotation of the lines that were handed over)
    if let (true, Some(lines)) = (case.cond.alignment, &case.lines) {
        let ann: Vec<crate::alignlaw::Ann> = lines
            .iter()
            .map(|l| {
                let mut it = l.splitn(3, ' ');
                match (it.next().and_then(|a| a.parse::<u64>().ok()), it.next().and_then(|a| a.parse::<u64>().ok())) {
                    (Some(s), Some(e)) => crate::alignlaw::Ann { start: Some(s), end: Some(e) },
                    _ => crate::alignlaw::Ann { start: None, end: None },
                }
            })
            .collect();
        let rate = engine.condition.get_sampling_frequency();
        if run.durations.len() == nlab * nstate && ann.iter().any(|a| a.end.is_some()) {
            ctx.count("aligned_utterances_checked_against_the_label_times", 1.0);
            if let crate::alignlaw::Verdict::Bad(what, d) =
                crate::alignlaw::check_law(&run.durations, &ann, nstate, rate, fperiod, None)
            {
                ctx.violation(
                    "frames-do-not-follow-the-label-times",
                    detail(J::obj().set("what", what).set("detail", d).set("rate", rate).set("fperiod", fperiod)),
                );
            }
        }
    }

    // --- independent length law (single voice; alignment off, or on with no time on any label:
    // the model's own durations then, whatever the speed setting)
    let untimed = case.lines.as_ref().map(|l| l.iter().all(|x| !x.contains(' '))).unwrap_or(true);
    if let (Some(rv), true, true) = (case.refv, !case.cond.alignment || untimed, case.wellformed) {
        let mut f1 = 0usize;
        let mut amb = false;
        let mut per_state = Vec::new();
        let mut oracle_ok = true;
        for l in &case.labels {
            match ref_label(rv, &l.to_string()) {
                Ok(rl) => {
                    for (m, _) in &rl.dur {
                        let (d, a) = dur_speed1(*m);
                        f1 += d;
                        amb |= a;
                        per_state.push((d, a));
                    }
                }
                Err(e) => {
                    ctx.inconclusive(&format!("reference reader failed: {}", e));
                    oracle_ok = false;
                    break;
                }
            }
        }
        if oracle_ok && per_state.len() == run.durations.len() {
            let speed = if case.cond.alignment { 1.0 } else { engine.condition.get_speed() };
            if case.cond.alignment {
                ctx.count("aligned_utterances_without_times_checked_against_the_model_durations", 1.0);
            }
            if speed == 1.0 {
                for (i, ((d, a), got)) in per_state.iter().zip(&run.durations).enumerate() {
                    if d != got && !*a {
                        ctx.violation(
                            "speed1-duration-law",
                            detail(J::obj().set("state", i).set("got", *got).set("expected", *d)),
                        );
                        break;
                    }
                }
            } else if !amb {
                let (t, a) = total_at_speed(f1, speed, per_state.len());
                if t != total && !a && nlab > 0 {
                    ctx.violation(
                        "total-length-law",
                        detail(J::obj().set("got", total).set("expected", t).set("f1", f1).set("speed", speed)),
                    );
                }
            }
            ctx.count("length_law_checked", 1.0);
        }
    }

    // --- finiteness
    let stage = case.engine.voices.stream_metadata(0).option.iter().any(|o| o.starts_with("GAMMA=") && o != "GAMMA=0");
    let beta = engine.condition.get_beta();
    let log_gain = engine.voices.stream_metadata(0).option.iter().any(|o| o == "LN_GAIN=1");
    let mut in_range = true;
    let mut worst_shape: f64 = 0.0;
    for c in &run.spectrum {
        if stage {
            if !lsp_in_range(c, log_gain) {
                in_range = false;
                break;
            }
        } else {
            let s = shape_bound(c, beta);
            if !(s <= 4.0) {
                in_range = false;
                worst_shape = s;
                break;
            }
            worst_shape = worst_shape.max(s);
        }
    }
    if run.lf0.iter().any(|f| f[0] != NODATA && !f[0].is_finite()) {
        in_range = false;
    }
    ctx.max("worst_shape_nepers_in_range", if in_range { worst_shape } else { 0.0 });
    let first_bad = run.wave.iter().position(|x| !x.is_finite());
    if in_range {
        ctx.count("cases_in_stable_range", 1.0);
        if let Some(i) = first_bad {
            ctx.violation(
                "non-finite-in-stable-range",
                detail(J::obj().set("index", i).set("value", run.wave[i]).set("worst_shape", worst_shape)),
            );
        }
    } else {
        ctx.count("cases_outside_stable_range", 1.0);
        if let Some(i) = first_bad {
            let peak = run.wave[..i].iter().fold(0.0f64, |a, x| a.max(x.abs()));
            if i == 0 || peak < 1e50 {
                let nan_param = run.spectrum.iter().flatten().any(|x| !x.is_finite())
                    || run.lf0.iter().any(|f| !f[0].is_finite());
                ctx.violation(
                    "non-finite-out-of-nothing",
                    detail(
                        J::obj()
                            .set("index", i)
                            .set("peak_before", peak)
                            .set("non_finite_generated_parameter", nan_param),
                    ),
                );
            } else {
                ctx.count("runaway_growth_then_nonfinite", 1.0);
            }
        }
    }

    // --- bookkeeping
    let voiced = run.lf0.iter().filter(|f| f[0] != NODATA).count();
    ctx.count("voiced_frames", voiced as f64);
    if voiced >= 1 && total > nlab * nstate {
        let lh = hash_str(&to_strings(&case.labels).join("\n"));
        let cb = hash_str(&format!("{}", case.cond.to_json()));
        ctx.nontrivial(mix(&[hash_str(&case.descr), cb, lh]));
    }
    if ctx.want_sample() {
        ctx.sample(detail(
            J::obj()
                .set("frames", total)
                .set("samples", run.wave.len())
                .set("voiced_frames", voiced)
                .set("in_stable_range", in_range),
        ));
    }
    Some(run)
}

/// time-annotated lines for alignment workloads: pattern 0 = all, 1 = partial, 2 = none
pub fn annotate(rng: &mut Rng, labels: &[Label], rate: usize, fperiod: usize) -> Vec<String> {
    let pattern = rng.below(3);
    let unit = fperiod as f64 * 1e7 / rate as f64; // one frame in 100 ns units
    let mut t = 0.0f64;
    let mut out = Vec::new();
    for l in labels {
        let frames = rng.range(1, 40) as f64 + if rng.chance(0.3) { rng.f64() } else { 0.0 };
        let start = t;
        let end = t + frames * unit;
        t = end;
        let annotated = match pattern {
            0 => true,
            1 => rng.chance(0.6),
            _ => false,
        };
        if annotated {
            out.push(format!("{} {} {}", start.round() as u64, end.round() as u64, l));
        } else {
            out.push(l.to_string());
        }
    }
    out
}

fn utterance_for(env: &Env, rng: &mut Rng, max: usize) -> Vec<Label> {
    match rng.below(5) {
        0 => env.corpus.sentence(rng, max),
        _ => env.corpus.random_utterance(rng, 1, max),
    }
}

fn run_on_engine(
    ctx: &mut Ctx,
    env: &Env,
    rng: &mut Rng,
    base: &Engine,
    refv: Option<&RefVoice>,
    descr: &str,
    max_labels: usize,
) {
    let nstreams = base.voices.global_metadata().num_streams;
    let cond = Cond::random(rng, nstreams, true);
    let mut engine = base.clone();
    cond.apply(&mut engine);
    let labels = utterance_for(env, rng, max_labels);
    // (with alignment on, one utterance in four is still handed over as parsed labels)
    let lines = if cond.alignment && !rng.chance(0.25) {
        Some(annotate(rng, &labels, engine.condition.get_sampling_frequency(), engine.condition.get_fperiod()))
    } else {
        None
    };
    check(ctx, &Case { engine: &engine, refv, labels, lines, descr: descr.to_string(), cond, wellformed: true });
}

pub fn load_synthetic(env: &Env, opts: &VoiceOpts, rng: &mut Rng) -> Result<(Engine, RefVoice), String> {
    let spec = voicegen::generate(opts, &env.pool, rng);
    let bytes = voicegen::write(&spec);
    let refv = read_voice(&bytes).map_err(|e| format!("reference reader: {}", e))?;
    voicegen::cross_check(&spec, &refv).map_err(|e| format!("generator/reader disagree: {}", e))?;
    let p = env.voice_file(&bytes);
    // two public routes to an engine: Engine::load, or the voice loaded by hand into a VoiceSet
    // with a default Condition that takes the voice's settings, then Engine::new
    let e = if rng.chance(0.35) {
        match jbonsai::model::load_htsvoice_file(&p) {
            Ok(v) => crate::env::engine_from_voices(vec![std::sync::Arc::new(v)]),
            Err(e) => Err(format!("{}", e)),
        }
    } else {
        Engine::load(&[&p]).map_err(|e| format!("{}", e))
    };
    env.remove(&p);
    match e {
        Ok(e) => Ok((e, refv)),
        Err(e) => Err(format!("LOADFAIL {}", e)),
    }
}

pub fn run(ctx: &mut Ctx) {
    let env = Env::new(ctx);
    let bundled = env.load_bundled();
    let q = ctx.quick();

    // empty label list
    ctx.run_cases("empty", 16, true, |ctx, rng, idx| {
        let mut engine = bundled.clone();
        let mut cond = if idx % 2 == 1 { Cond::random(rng, 3, true) } else { Cond::default() };
        // every other pair with phoneme alignment on (the empty list then takes the aligned path)
        cond.alignment = (idx / 2) % 2 == 1;
        cond.apply(&mut engine);
        let lines = match idx / 4 {
            0 | 2 => None,
            1 => Some(vec![String::new(), String::new()]),
            _ => Some(vec![]),
        };
        check(ctx, &Case { engine: &engine, refv: Some(&env.bundled_ref), labels: vec![], lines, descr: "bundled".into(), cond, wellformed: true });
    });

    let n = ctx.n(200, 4000);
    ctx.run_cases("bundled", n, false, |ctx, rng, _| {
        let max = if q { 8 } else { 40 };
        run_on_engine(ctx, &env, rng, &bundled, Some(&env.bundled_ref), "bundled", max);
    });

    let n = ctx.n(24, 400);
    ctx.run_cases("perturbed", n, false, |ctx, rng, _| {
        let strength = rng.uniform(0.05, 0.5);
        let bytes = voicegen::perturb(&env.bundled_bytes, rng, strength);
        let refv = match read_voice(&bytes) {
            Ok(r) => r,
            Err(e) => {
                ctx.inconclusive(&format!("reader on perturbed voice: {}", e));
                return;
            }
        };
        let p = env.voice_file(&bytes);
        let e = Engine::load(&[&p]);
        env.remove(&p);
        match e {
            Ok(e) => {
                for _ in 0..3 {
                    run_on_engine(ctx, &env, rng, &e, Some(&refv), &format!("perturbed({:.2})", strength), if q { 6 } else { 30 });
                }
            }
            Err(e) => ctx.violation("perturbed-voice-does-not-load", J::obj().set("err", format!("{}", e))),
        }
    });

    // the configuration grid of the quantifier: {2,3 streams} x {stage 0..3} x nstate 1..7 x 4 window sets
    ctx.run_cases("grid", 224, true, |ctx, rng, idx| {
        let mut o = VoiceOpts::random(rng);
        o.nstreams = 2 + idx % 2;
        o.stage = (idx / 2) % 4;
        o.nstate = 1 + (idx / 8) % 7;
        o.win_mcp = [0usize, 1, 2, 3, 5, 4][(idx / 56 + idx % 2) % 6];
        o.win_lf0 = [1usize, 2, 5, 3, 0, 4][(idx / 56 + idx / 8) % 6];
        match load_synthetic(&env, &o, rng) {
            Ok((e, refv)) => {
                for _ in 0..2 {
                    run_on_engine(ctx, &env, rng, &e, Some(&refv), &format!("grid[{}]", o.describe()), if q { 5 } else { 20 });
                }
            }
            Err(e) if e.starts_with("LOADFAIL") => ctx.violation("generated-voice-does-not-load", J::obj().set("err", e).set("opts", o.describe())),
            Err(e) => ctx.inconclusive(&e),
        }
    });

    let n = ctx.n(400, 6000);
    ctx.run_cases("synthetic", n, false, |ctx, rng, _| {
        let o = VoiceOpts::random(rng);
        match load_synthetic(&env, &o, rng) {
            Ok((e, refv)) => {
                for _ in 0..3 {
                    run_on_engine(ctx, &env, rng, &e, Some(&refv), &format!("synthetic[{}]", o.describe()), if q { 8 } else { 40 });
                }
            }
            Err(e) if e.starts_with("LOADFAIL") => ctx.violation("generated-voice-does-not-load", J::obj().set("err", e).set("opts", o.describe())),
            Err(e) => ctx.inconclusive(&e),
        }
    });

    // hostile corners
    let n = ctx.n(320, 3000);
    ctx.run_cases("corners", n, false, |ctx, rng, idx| {
        let mut o = VoiceOpts::random(rng);
        let kind = idx % 6;
        if kind == 0 {
            o.nstate = 1;
        }
        if kind == 5 {
            o.gv_mcp = true;
            o.gv_lf0 = true;
        }
        let (e, refv) = match load_synthetic(&env, &o, rng) {
            Ok(x) => x,
            Err(e) if e.starts_with("LOADFAIL") => {
                ctx.violation("generated-voice-does-not-load", J::obj().set("err", e).set("opts", o.describe()));
                return;
            }
            Err(e) => {
                ctx.inconclusive(&e);
                return;
            }
        };
        let mut cond = Cond::default();
        let n = e.voices.global_metadata().num_streams;
        cond.gv_weight = vec![None; n];
        cond.msd_threshold = vec![None; n];
        let labels: Vec<Label> = match kind {
            0 => {
                // one label, one state, fastest speed: a single frame
                cond.speed = Some(4.0);
                vec![env.corpus.recombine(rng)]
            }
            1 => {
                // all-silence utterance
                (0..rng.range(1, 4)).map(|_| env.corpus.silence_label(rng)).collect()
            }
            2 => {
                // GV weight 0 on every stream
                cond.gv_weight = vec![Some(0.0); n];
                env.corpus.random_utterance(rng, 1, 6)
            }
            3 => {
                // extreme thresholds: everything voiced / nothing voiced
                let t = if rng.chance(0.5) { 0.0 } else { 1.0 };
                cond.msd_threshold = vec![Some(t); n];
                env.corpus.random_utterance(rng, 1, 6)
            }
            4 => {
                // one short non-silent label between silences, fast: very few GV-eligible frames
                cond.speed = Some(*rng.pick(&[2.0, 3.0, 4.0]));
                vec![env.corpus.silence_label(rng), env.corpus.recombine(rng), env.corpus.silence_label(rng)]
            }
            _ => {
                // threshold just under the largest voicing weight: exactly the top states voiced
                cond.msd_threshold[1] = Some(*rng.pick(&[0.94, 0.949, 0.5, 0.75, 0.25]));
                cond.speed = Some(4.0);
                env.corpus.random_utterance(rng, 1, 3)
            }
        };
        let mut engine = e.clone();
        cond.apply(&mut engine);
        check(ctx, &Case { engine: &engine, refv: Some(&refv), labels, lines: None, descr: format!("corner{}[{}]", kind, o.describe()), cond, wellformed: true });
    });

    // structurally random labels: no panic + frame exactness only
    let n = ctx.n(200, 3000);
    ctx.run_cases("randlabels", n, false, |ctx, rng, idx| {
        let labels: Vec<Label> = (0..rng.range(1, 6)).map(|_| random_label(rng)).collect();
        if idx % 3 == 0 {
            let cond = Cond::random(rng, 3, false);
            let mut engine = bundled.clone();
            cond.apply(&mut engine);
            check(ctx, &Case { engine: &engine, refv: None, labels, lines: None, descr: "bundled/randlabels".into(), cond, wellformed: false });
        } else {
            let o = VoiceOpts::random(rng);
            if let Ok((e, _)) = load_synthetic(&env, &o, rng) {
                let cond = Cond::random(rng, e.voices.global_metadata().num_streams, false);
                let mut engine = e.clone();
                cond.apply(&mut engine);
                check(ctx, &Case { engine: &engine, refv: None, labels, lines: None, descr: format!("synthetic/randlabels[{}]", o.describe()), cond, wellformed: false });
            }
        }
    });
}
