//! C14 — the postfilter sharpens formants and preserves energy.

use crate::ctx::Ctx;
use crate::json::{fvec, J};
use crate::mon::c06::{alpha_pick, random_cepstrum, rate_pick, shape_of, RATES};
use crate::pulse::steady_state;
use crate::refimpl::{least_squares, mcep_logspec, warp};
use crate::rng::mix;
use jbonsai::vocoder::Vocoder;

pub fn run(ctx: &mut Ctx) {
    let n = ctx.n(1280, 60000);
    ctx.run_cases("postfilter", n, false, |ctx, rng, idx| {
        let order = if idx % 10 == 0 { 2 } else if idx % 10 == 1 { 3 } else { rng.range(3, 40) };
        let alpha = alpha_pick(rng);
        let rate = rate_pick(rng, idx / 2);
        let beta = if idx % 7 == 0 { 0.5 } else { rng.uniform(0.01, 0.5) };
        let target = rng.uniform(0.05, 1.3);
        let resonant = idx % 4 == 3;
        let order = if resonant { 40 } else { order };
        let rate = if resonant { RATES[3 + idx % 3] } else { rate };
        let beta = if resonant { rng.uniform(0.3, 0.5) } else { beta };
        let (alpha, c) = if resonant {
            // log of a sharp pole (pair) in the warped domain: the impulse response rings for
            // hundreds of samples (still inside the implementation's 576-tap horizon)
            let alpha = rng.uniform(0.45, 0.6);
            let r = rng.uniform(0.95, 0.985);
            let th = if rng.chance(0.5) { 0.0 } else { rng.uniform(0.0, 0.15) };
            let g = rng.uniform(0.2, 0.65);
            let mut c: Vec<f64> = (0..order).map(|k| if k == 0 { 0.0 } else { g * 2.0 * r.powi(k as i32) * (k as f64 * th).cos() / k as f64 }).collect();
            c[0] = rng.uniform(-1.0, 2.0);
            (alpha, c)
        } else {
            (alpha, random_cepstrum(rng, order, alpha, target))
        };
        if resonant {
            ctx.count("resonant_cepstra", 1.0);
        }
        let mut c = c;
        if !resonant && order >= 4 && idx % 4 == 1 {
            // strong low-pass tilt with a negative second coefficient: sharpening LOWERS the energy here
            c[1] = rng.uniform(1.2, 2.4);
            c[2] = rng.uniform(-0.5, -0.1);
            for x in c.iter_mut().skip(3) {
                *x *= 0.2;
            }
            ctx.count("tilt_cepstra", 1.0);
        }
        if idx % 6 == 3 {
            // the gain term is free: very quiet and very loud frames too (the energies the
            // postfilter compares scale with exp(2 c0))
            c[0] = if rng.chance(0.7) { rng.uniform(-18.0, -8.0) } else { rng.uniform(5.0, 10.0) };
            ctx.count("extreme_gain_cepstra", 1.0);
        }
        if !resonant && order >= 4 && idx % 8 == 2 {
            // exact zeros: the gain term or an interior coefficient
            match rng.below(3) {
                0 => c[0] = 0.0,
                1 => c[1] = 0.0,
                _ => {
                    let k = rng.range(2, order - 2);
                    c[k] = 0.0;
                }
            }
            ctx.count("cepstra_with_exact_zeros", 1.0);
        }
        // the law: c'_1 = c_1, c'_m = (1+beta) c_m for m >= 2 (c'_0 free)
        let mut cp = c.clone();
        for m in 2..order {
            cp[m] *= 1.0 + beta;
        }
        let shape_post = shape_of(&cp, alpha);
        let p = rate / 20;
        let descr = || {
            J::obj()
                .set("order", order)
                .set("alpha", alpha)
                .set("beta", beta)
                .set("rate", rate)
                .set("postfiltered_shape_nepers", shape_post)
                .set("cepstrum", fvec(&c, 48))
        };
        let v0 = Vocoder::new(order, 0, 0, false, rate, alpha, 0.0, 1.0, p);
        let vb = Vocoder::new(order, 0, 0, false, rate, alpha, beta, 1.0, p);
        let s0 = steady_state(v0.clone(), &c, p, 48, 1e-11);
        if !s0.finite || !s0.converged {
            ctx.count("beta0_not_measurable_skipped", 1.0);
            return;
        }
        // beta = 0 changes nothing: same vocoder parameters except an explicit 0.0
        if idx % 16 == 0 {
            let vz = Vocoder::new(order, 0, 0, false, rate, alpha, 0.0, 1.0, p);
            let sz = steady_state(vz, &c, p, s0.frames_used, 0.0);
            let same = sz.period.iter().map(|x| x.to_bits()).eq(s0.period.iter().map(|x| x.to_bits()));
            if !same {
                ctx.violation("beta0-not-deterministic", descr());
            }
        }
        let sb = steady_state(vb, &c, p, 48, 1e-11);
        if !sb.finite {
            if shape_post <= 2.0 {
                ctx.violation("non-finite-response", descr());
            }
            return;
        }
        if !sb.converged {
            ctx.count("not_converged_skipped", 1.0);
            return;
        }
        ctx.count("responses_measured", 1.0);
        if order == 2 {
            // nothing to sharpen: must be a no-op, bit for bit
            let s0b = steady_state(v0, &c, p, sb.frames_used, 0.0);
            let same = s0b.period.iter().map(|x| x.to_bits()).eq(sb.period.iter().map(|x| x.to_bits()));
            ctx.count("order2_noop_checked", 1.0);
            if !same {
                ctx.violation("order2-not-noop", descr());
            }
            return;
        }
        if shape_post > 2.0 {
            // outside the Pade range of the spectrum law; the energy clause only needs the
            // 576-tap horizon, so it is still checked (up to a shape of 5 nepers)
            ctx.count("outside_pade_range_law_skipped", 1.0);
            if shape_post <= 5.0 {
                energy_clause(ctx, &s0, &sb, &descr(), order, alpha, beta, rate, true);
            }
            return;
        }
        // measured log spectrum with beta, on >= 4*order harmonics
        let hs = sb.harmonics((4 * order + 8).max(65));
        let ws: Vec<f64> = hs.iter().map(|j| sb.omega(*j)).collect();
        let meas: Vec<f64> = hs.iter().map(|j| sb.log_mag(*j)).collect();
        // (a) spectrum-domain law: meas - sum_{m>=1} c'_m cos(m w~) is a constant (c'_0)
        let resid: Vec<f64> = ws
            .iter()
            .zip(&meas)
            .map(|(w, y)| {
                let mut z = cp.clone();
                z[0] = 0.0;
                y - mcep_logspec(&z, alpha, *w)
            })
            .collect();
        let c0p = resid.iter().sum::<f64>() / resid.len() as f64;
        let worst = resid.iter().fold(0.0f64, |m, r| m.max((r - c0p).abs()));
        ctx.max("worst_law_error_nepers", worst);
        if !(worst <= 0.01) {
            ctx.violation("postfilter-law-mismatch", descr().set("worst_error_nepers", worst).set("fitted_c0", c0p));
        }
        // (a') differential form: ln|H_beta| - ln|H_0| = beta * sum_{m>=2} c_m cos(m w~) + const.
        // Both responses pass through the same Pade filter, so its error largely cancels and
        // a much tighter bound is meaningful (observed on the clean tree: < 3e-4).
        if s0.p == sb.p {
            let diff: Vec<f64> = hs
                .iter()
                .zip(&ws)
                .map(|(j, w)| {
                    let mut z = vec![0.0; order];
                    for m in 2..order {
                        z[m] = beta * c[m];
                    }
                    (sb.log_mag(*j) - s0.log_mag(*j)) - mcep_logspec(&z, alpha, *w)
                })
                .collect();
            let mean = diff.iter().sum::<f64>() / diff.len() as f64;
            let worst_d = diff.iter().fold(0.0f64, |m, r| m.max((r - mean).abs()));
            ctx.max("worst_differential_law_error_nepers", worst_d);
            if !(worst_d <= 0.003) {
                ctx.violation("postfilter-differential-law-mismatch", descr().set("worst_error_nepers", worst_d));
            }
        }
        // (b) recovered cepstrum (least squares), reported and checked loosely
        let basis: Vec<Vec<f64>> = ws
            .iter()
            .map(|w| {
                let ww = warp(*w, alpha);
                (0..order).map(|m| (m as f64 * ww).cos()).collect()
            })
            .collect();
        if let Some(fit) = least_squares(&basis, &meas) {
            let mut dev = 0.0f64;
            for m in 1..order {
                dev = dev.max((fit[m] - cp[m]).abs());
            }
            ctx.max("worst_recovered_coefficient_error", dev);
            ctx.count("cepstra_recovered", 1.0);
            if dev.is_finite() && dev > 0.02 {
                ctx.violation("recovered-cepstrum-mismatch", descr().set("worst_coefficient_error", dev).set("recovered", fvec(&fit, 48)));
            }
        }
        // the postfilter must actually sharpen: differs from beta = 0 when c_m (m>=2) != 0
        let moved = s0
            .period
            .iter()
            .zip(&sb.period)
            .fold(0.0f64, |m, (a, b)| m.max((a - b).abs()))
            / s0.peak.max(1e-300);
        ctx.max("max_relative_change_by_postfilter", moved);
        energy_clause(ctx, &s0, &sb, &descr(), order, alpha, beta, rate, false);
        if ctx.want_sample() {
            ctx.sample(descr().set("worst_law_error_nepers", worst).set("fitted_c0", c0p).set("harmonics", hs.len()));
        }
    });
}

/// engine level: set_beta(b) must make synthesis use exactly the postfilter with b (and only the
/// spectrum rendering changes: trajectories stay bit-equal)
/// With a constant spectrum the synthesis filter is time-invariant from the second frame on,
/// whatever the voicing does: the output must be the excitation (the same pitch / voicing
/// sequence rendered with an all-zero spectrum) convolved with the measured pulse response —
/// in unvoiced frames and at voicing onsets just as in the voiced steady state.
pub fn voicing_switches(ctx: &mut Ctx) {
    use crate::pulse::LN20;
    use crate::synth::NODATA;
    let n = ctx.n(64, 1500);
    ctx.run_cases("voicing-switches", n, false, |ctx, rng, idx| {
        let rate = [8000usize, 16000][idx % 2];
        let p = rate / 20;
        let order = rng.range(3, 30);
        let alpha = alpha_pick(rng);
        let beta = if idx % 6 == 5 { 0.0 } else { rng.uniform(0.1, 0.5) };
        let target = rng.uniform(0.3, 1.3);
        let c = random_cepstrum(rng, order, alpha, target);
        let voc = Vocoder::new(order, 0, 0, false, rate, alpha, beta, 1.0, p);
        let st = steady_state(voc.clone(), &c, p, 48, 1e-11);
        if !(st.finite && st.converged && st.decayed) {
            ctx.count("voicing_switch_cases_skipped_response_too_long", 1.0);
            return;
        }
        let h: Vec<f64> = (0..p).map(|k| st.period[(k + 1) % p] / (p as f64).sqrt()).collect();
        // two voiced warm-up frames (the first frame glides from the plain to the postfiltered
        // coefficients), then a random pattern that contains an unvoiced -> voiced onset
        let mut lf0 = vec![LN20, LN20];
        for _ in 0..3 {
            lf0.push(if rng.chance(0.5) { NODATA } else { LN20 });
        }
        lf0.push(NODATA);
        lf0.push(LN20);
        lf0.push(if rng.chance(0.5) { NODATA } else { LN20 });
        let render = |mut v: Vocoder, spec: &[f64]| -> Vec<f64> {
            let mut out = Vec::with_capacity(lf0.len() * p);
            let mut buf = vec![0.0; p];
            for l in &lf0 {
                v.synthesize(*l, spec, &[], &mut buf);
                out.extend_from_slice(&buf);
            }
            out
        };
        let y = render(voc, &c);
        let e = render(Vocoder::new(order, 0, 0, false, rate, alpha, 0.0, 1.0, p), &vec![0.0; order]);
        // (from the second frame on: the first frame glides from the plain to the postfiltered
        // coefficients, and its pulse response has died away before the second frame ends)
        let peak = y.iter().skip(p).fold(0.0f64, |m, x| m.max(x.abs()));
        let mut worst = 0.0f64;
        let mut at = 0;
        for n in p..y.len() {
            let mut want = 0.0;
            for (k, hk) in h.iter().enumerate() {
                want += hk * e[n - k];
            }
            let d = (y[n] - want).abs();
            if d > worst || d.is_nan() {
                worst = d;
                at = n;
            }
        }
        ctx.max("voicing_switch_worst_relative_deviation", worst / peak.max(1e-300));
        ctx.count("voicing_switch_frames_compared", (lf0.len() - 1) as f64);
        if !(worst <= 1e-6 * peak) {
            ctx.violation(
                "filter-depends-on-voicing",
                J::obj()
                    .set("order", order)
                    .set("alpha", alpha)
                    .set("beta", beta)
                    .set("rate", rate)
                    .set("voiced_frames", J::Arr(lf0.iter().map(|l| J::from((*l != NODATA) as usize)).collect()))
                    .set("cepstrum", fvec(&c, 40))
                    .set("worst_abs_deviation", worst)
                    .set("peak", peak)
                    .set("at_frame", at / p)
                    .set("at_sample_in_frame", at % p),
            );
        }
        ctx.nontrivial(mix(&[0x75, order as u64, (beta * 100.0) as u64, lf0.iter().fold(0u64, |a, l| a * 2 + (*l != NODATA) as u64)]));
    });
}

/// The postfilter as the property states it, written from the definition: b = mel-cepstrum in
/// filter form; order 1 compensated, orders >= 2 times (1 + beta); order 0 shifted so that the
/// energy of the impulse response — (1/pi) * integral of exp(2 ln|H|) — is what it was.
fn reference_postfilter(c: &[f64], alpha: f64, beta: f64) -> Vec<f64> {
    let n = c.len();
    if !(beta > 0.0 && n > 2) {
        return c.to_vec();
    }
    let energy = |c: &[f64]| -> f64 {
        let grid = 4096;
        let mut s = 0.0;
        for i in 0..=grid {
            let w = std::f64::consts::PI * i as f64 / grid as f64;
            let v = (2.0 * mcep_logspec(c, alpha, w)).exp();
            s += if i == 0 || i == grid { 0.5 * v } else { v };
        }
        s / grid as f64
    };
    let mut b = c.to_vec();
    for i in (0..n - 1).rev() {
        b[i] = c[i] - alpha * b[i + 1];
    }
    let e1 = energy(c);
    b[1] -= beta * alpha * b[2];
    for x in b.iter_mut().skip(2) {
        *x *= 1.0 + beta;
    }
    let mut out = b.clone();
    for i in (0..n - 1).rev() {
        out[i] = b[i] + alpha * b[i + 1];
    }
    let e2 = energy(&out);
    out[0] += (e1 / e2).ln() / 2.0;
    out
}

/// A spectrum that moves from frame to frame: rendering with beta equals rendering without
/// beta of the reference-postfiltered frames (after two warm-up frames), sample by sample.
pub fn moving_spectrum(ctx: &mut Ctx) {
    use crate::synth::NODATA;
    let n = ctx.n(48, 1200);
    ctx.run_cases("moving-spectrum", n, false, |ctx, rng, idx| {
        let rate = 8000usize;
        let p = 400usize;
        let order = rng.range(3, 26);
        let alpha = alpha_pick(rng);
        let beta = rng.uniform(0.1, 0.5);
        let frames = 8;
        let lf0: Vec<f64> = (0..frames).map(|t| if t >= 2 && rng.chance(0.25) { NODATA } else { 5.0 + 0.02 * t as f64 }).collect();
        let mut cs: Vec<Vec<f64>> = Vec::new();
        for t in 0..frames {
            if t == 1 {
                let first = cs[0].clone();
                cs.push(first);
            } else {
                let target = rng.uniform(0.2, 0.9);
                cs.push(random_cepstrum(rng, order, alpha, target));
            }
        }
        let render = |beta: f64, cs: &[Vec<f64>]| -> Vec<f64> {
            let mut v = Vocoder::new(order, 0, 0, false, rate, alpha, beta, 1.0, p);
            let mut out = Vec::with_capacity(frames * p);
            let mut buf = vec![0.0; p];
            for (t, c) in cs.iter().enumerate() {
                v.synthesize(lf0[t], c, &[], &mut buf);
                out.extend_from_slice(&buf);
            }
            out
        };
        let y = render(beta, &cs);
        let refs: Vec<Vec<f64>> = cs.iter().map(|c| reference_postfilter(c, alpha, beta)).collect();
        let want = render(0.0, &refs);
        let peak = want.iter().skip(2 * p).fold(0.0f64, |m, x| m.max(x.abs()));
        let mut worst = 0.0f64;
        let mut at = 0;
        for k in 2 * p..y.len() {
            let d = (y[k] - want[k]).abs();
            if d > worst || d.is_nan() {
                worst = d;
                at = k;
            }
        }
        ctx.max("moving_spectrum_worst_relative_deviation", worst / peak.max(1e-300));
        ctx.count("moving_spectrum_frames_compared", (frames - 2) as f64);
        if !(worst <= 1e-5 * peak) {
            ctx.violation(
                "postfilter-differs-on-a-moving-spectrum",
                J::obj().set("order", order).set("alpha", alpha).set("beta", beta).set("worst_abs_deviation", worst).set("peak", peak).set("at_frame", at / p).set("voiced_frames", J::Arr(lf0.iter().map(|l| J::from((*l != NODATA) as usize)).collect())),
            );
        }
        ctx.nontrivial(mix(&[0x77, order as u64, (beta * 100.0) as u64, idx as u64]));
    });
}

pub fn end_to_end(ctx: &mut Ctx) {
    use crate::env::{Cond, Env};
    use crate::mon::c01::load_synthetic;
    use crate::synth::{bits_equal, params_from_getters, rerender, run_with_hooks};
    use crate::voicegen::VoiceOpts;
    let env = Env::new(ctx);
    let bundled = env.load_bundled();
    let n = ctx.n(24, 2000);
    ctx.run_cases("engine-beta", n, false, |ctx, rng, idx| {
        let (base, descr) = if idx % 3 == 0 {
            (bundled.clone(), "bundled".to_string())
        } else {
            let mut o = VoiceOpts::random(rng);
            o.stage = 0;
            match load_synthetic(&env, &o, rng) {
                Ok((e, _)) => (e, format!("synthetic[{}]", o.describe())),
                Err(e) => {
                    ctx.inconclusive(&e);
                    return;
                }
            }
        };
        let mut e0 = base.clone();
        let mut cond = Cond::random(rng, e0.voices.global_metadata().num_streams, false);
        cond.volume_db = None;
        cond.beta = None;
        cond.apply(&mut e0);
        let beta = if idx % 4 == 0 { 0.5 } else { rng.uniform(0.05, 0.5) };
        let mut eb = e0.clone();
        eb.condition.set_beta(beta);
        if idx % 5 == 2 {
            // beta is set on the condition *before* the voices' defaults are loaded into it
            let mut c = jbonsai::Condition::default();
            c.set_beta(beta);
            if c.load_model(&base.voices).is_err() {
                ctx.violation("load-model-err", J::from(descr.clone()));
                return;
            }
            eb = jbonsai::Engine::new(base.voices.clone(), c);
            cond.apply(&mut eb);
            ctx.count("beta_set_before_load_model", 1.0);
        }
        let labels = env.corpus.random_utterance(rng, 1, if ctx.quick() { 4 } else { 12 });
        let (Ok(r0), Ok(rb)) = (run_with_hooks(&e0, labels.clone()), run_with_hooks(&eb, labels.clone())) else {
            ctx.violation("synthesize-err", J::from(descr.clone()));
            return;
        };
        let d = |extra: J| J::obj().set("voice", descr.clone()).set("beta", beta).set("cond", cond.to_json()).set("observed", extra);
        let same_traj = r0.durations == rb.durations
            && r0.spectrum.iter().flatten().map(|x| x.to_bits()).eq(rb.spectrum.iter().flatten().map(|x| x.to_bits()))
            && r0.lf0.iter().flatten().map(|x| x.to_bits()).eq(rb.lf0.iter().flatten().map(|x| x.to_bits()));
        if !same_traj {
            ctx.violation("beta-changed-the-generated-parameters", d(J::Null));
            return;
        }
        let Some(mut p) = params_from_getters(&eb) else {
            ctx.inconclusive("Condition's Debug output no longer exposes stage / use_log_gain");
            return;
        };
        if !(p.beta == beta) {
            ctx.violation("beta-getter", d(J::obj().set("got", p.beta)));
            return;
        }
        let want = rerender(&p, &rb);
        let finite = want.iter().all(|x| x.is_finite()) && rb.wave.iter().all(|x| x.is_finite());
        if finite && !bits_equal(&want, &rb.wave) {
            ctx.violation("engine-does-not-render-with-the-postfilter-coefficient-that-was-set", d(J::obj().set("len", rb.wave.len())));
            return;
        }
        p.beta = 0.0;
        let plain = rerender(&p, &rb);
        let changed = !bits_equal(&plain, &rb.wave);
        ctx.count("engine_beta_waveforms_compared", 1.0);
        if finite && changed && p.nmcp > 2 {
            ctx.nontrivial(mix(&[41, crate::rng::hash_str(&descr), (beta * 1000.0) as u64, rb.wave.len() as u64]));
        }
    });
}

/// (c) energy preservation within 1 %, when the response fits the implementation's 576-tap horizon
#[allow(clippy::too_many_arguments)]
fn energy_clause(ctx: &mut Ctx, s0: &crate::pulse::Steady, sb: &crate::pulse::Steady, descr: &J, order: usize, alpha: f64, beta: f64, rate: usize, beyond_pade: bool) {
    if !(s0.decayed && sb.decayed) {
        ctx.count("energy_not_decayed_skipped", 1.0);
        return;
    }
    let e0 = s0.energy();
    let eb = sb.energy();
    let head: f64 = s0.period.iter().take(576).map(|x| x * x).sum::<f64>() / s0.p as f64;
    let head_b: f64 = sb.period.iter().take(576).map(|x| x * x).sum::<f64>() / sb.p as f64;
    if head < 0.9999 * e0 || head_b < 0.9999 * eb {
        ctx.count("energy_outside_576_tap_horizon", 1.0);
        return;
    }
    let head256: f64 = sb.period.iter().take(256).map(|x| x * x).sum::<f64>() / sb.p as f64;
    if head256 < 0.99 * eb {
        ctx.count("energy_checked_with_response_longer_than_256_taps", 1.0);
    }
    let ratio = eb / e0;
    ctx.count("energy_checked", 1.0);
    if beyond_pade {
        ctx.count("energy_checked_beyond_pade_range", 1.0);
        ctx.max("worst_energy_deviation_beyond_pade_range", (ratio - 1.0).abs());
    } else {
        ctx.max("worst_energy_deviation", (ratio - 1.0).abs());
    }
    if !((ratio - 1.0).abs() <= 0.01) {
        ctx.violation("energy-not-preserved", descr.clone().set("energy_ratio", ratio).set("beyond_pade_range", beyond_pade));
    }
    let moved = s0.period.iter().zip(&sb.period).fold(0.0f64, |m, (a, b)| m.max((a - b).abs())) / s0.peak.max(1e-300);
    if moved > 1e-3 {
        ctx.nontrivial(mix(&[order as u64, (alpha * 10.0) as u64, (beta * 10.0) as u64, rate as u64, beyond_pade as u64]));
    }
}
