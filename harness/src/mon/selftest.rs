//! Self-checks of the harness' own generators and references (not a property monitor).
use crate::ctx::Ctx;
use crate::env::Env;
use crate::json::J;
use crate::voicegen::{self, VoiceOpts};
use crate::voiceread::read_voice;

pub fn run(ctx: &mut Ctx) {
    let env = Env::new(ctx);
    println!("corpus lines {} utts {} pool {} regex {:?}", env.corpus.lines.len(), env.corpus.utt_starts.len(), env.pool.all.len(), env.pool.regex_fallback.iter().map(|i| env.pool.all[*i].0.clone()).collect::<Vec<_>>());
    let n = ctx.n(50, 500);
    ctx.run_cases("genvoice", n, false, |ctx, rng, _| {
        let opts = VoiceOpts::random(rng);
        let spec = voicegen::generate(&opts, &env.pool, rng);
        let bytes = voicegen::write(&spec);
        let r = read_voice(&bytes).expect("reader reads generated voice");
        voicegen::cross_check(&spec, &r).expect("cross-check");
        let p = env.voice_file(&bytes);
        let e = jbonsai::Engine::load(&[&p]);
        match e {
            Ok(_) => ctx.count("loaded", 1.0),
            Err(e) => {
                ctx.violation("selftest-load", J::obj().set("err", format!("{}", e)).set("opts", opts.describe()));
                std::fs::write("/tmp/bad.htsvoice", &bytes).ok();
            }
        }
        env.remove(&p);
    });
}
