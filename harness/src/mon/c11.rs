//! C11 — voicing follows each stream's MSD threshold.

use crate::ctx::Ctx;
use crate::env::Env;
use crate::json::{fvec, J};
use crate::labels::to_strings;
use crate::mon::c01::load_synthetic;
use crate::rng::{hash_str, mix, Rng};
use crate::synth::{ref_label, run_with_hooks, trajectories, Run, NODATA};
use crate::voicegen::{self, VoiceOpts};
use crate::voiceread::{read_voice, RefVoice};
use jbonsai::vocoder::Vocoder;
use jbonsai::Engine;
use jlabel::Label;

fn bits_eq2(a: &[Vec<f64>], b: &[Vec<f64>]) -> bool {
    a.len() == b.len() && a.iter().zip(b).all(|(x, y)| x.len() == y.len() && x.iter().zip(y).all(|(p, q)| p.to_bits() == q.to_bits()))
}

/// per-state voicing weights of stream 1 from the file
fn state_weights(rv: &RefVoice, labels: &[Label]) -> Result<Vec<f64>, String> {
    let mut w = Vec::new();
    for l in labels {
        let rl = ref_label(rv, &l.to_string())?;
        for g in &rl.streams[1] {
            w.push(g.msd.ok_or("stream 1 is not MSD")?);
        }
    }
    Ok(w)
}

fn frame_states(d: &[usize]) -> Vec<usize> {
    let mut v = Vec::new();
    for (s, n) in d.iter().enumerate() {
        for _ in 0..*n {
            v.push(s);
        }
    }
    v
}

fn one_voice(ctx: &mut Ctx, env: &Env, rng: &mut Rng, base: &Engine, rv: &RefVoice, descr: &str) {
    let labels = env.corpus.random_utterance(rng, 2, if ctx.quick() { 8 } else { 30 });
    let weights = match state_weights(rv, &labels) {
        Ok(w) => w,
        Err(e) => {
            ctx.inconclusive(&format!("reference: {}", e));
            return;
        }
    };
    let nstreams = base.voices.global_metadata().num_streams;
    // thresholds: 0, 1, exact weights, weights +- ulp, random
    let mut ths: Vec<f64> = vec![0.0, 1.0, 0.5];
    for _ in 0..3 {
        let w = *rng.pick(&weights);
        ths.push(w);
        ths.push(f64::from_bits(w.to_bits() + 1).min(1.0));
        if w > 0.0 {
            ths.push(f64::from_bits(w.to_bits() - 1));
        }
    }
    for _ in 0..3 {
        ths.push(rng.f64());
    }
    ths.sort_by(|a, b| a.total_cmp(b));
    let d = |extra: J| J::obj().set("voice", descr).set("labels", J::Arr(to_strings(&labels).into_iter().take(4).map(J::Str).collect())).set("observed", extra);
    let mut prev: Option<(f64, Vec<bool>, Run)> = None;
    let mut flips = 0usize;
    // (voicing does not depend on the pitch shift: half of the cases run transposed)
    let half_tone = if rng.chance(0.5) { rng.uniform(-12.0, 12.0) } else { 0.0 };
    for th in ths {
        let mut e = base.clone();
        e.condition.set_msd_threshold(1, th);
        e.condition.set_additional_half_tone(half_tone);
        let run = match trajectories(&e, labels.clone()) {
            Ok(r) => r,
            Err(er) => {
                ctx.violation("synthesize-err", d(J::from(format!("{}", er))));
                return;
            }
        };
        let fs = frame_states(&run.durations);
        if fs.len() != run.lf0.len() || run.durations.len() != weights.len() {
            ctx.violation("shape", d(J::obj().set("frames", run.lf0.len()).set("sum_durations", fs.len())));
            return;
        }
        let voiced: Vec<bool> = run.lf0.iter().map(|f| f[0] != NODATA).collect();
        for (t, s) in fs.iter().enumerate() {
            let want = weights[*s] > th;
            if voiced[t] != want {
                ctx.violation(
                    "voiced-iff-weight-exceeds-threshold",
                    d(J::obj().set("threshold", th).set("frame", t).set("state", *s).set("weight", weights[*s]).set("voiced", voiced[t])),
                );
                return;
            }
            if voiced[t] && !run.lf0[t][0].is_finite() {
                ctx.violation("voiced-frame-without-f0", d(J::obj().set("frame", t).set("value", run.lf0[t][0])));
                return;
            }
        }
        ctx.count("frames_checked", fs.len() as f64);
        if let Some((pth, pv, prun)) = &prev {
            // raising the threshold can only turn voiced frames unvoiced
            if voiced.len() == pv.len() {
                if voiced.iter().zip(pv).any(|(now, before)| *now && !*before) {
                    ctx.violation("raising-threshold-voiced-a-frame", d(J::obj().set("from", *pth).set("to", th)));
                    return;
                }
                flips += voiced.iter().zip(pv).filter(|(a, b)| a != b).count();
            }
            // the other streams do not move
            if !bits_eq2(&run.spectrum, &prun.spectrum) || !bits_eq2(&run.lpf, &prun.lpf) || run.durations != prun.durations {
                ctx.violation("threshold-of-stream-1-changed-another-stream", d(J::obj().set("from", *pth).set("to", th)));
                return;
            }
        }
        prev = Some((th, voiced, run));
    }
    // isolation the other way round: thresholds / GV weights of the other streams leave stream 1 alone
    // (at a threshold where frames are voiced: the median state weight)
    let mid = {
        let mut w = weights.clone();
        w.sort_by(|a, b| a.total_cmp(b));
        let m = w[w.len() / 2];
        if m > 0.0 { f64::from_bits(m.to_bits() - 1) } else { 0.0 }
    };
    let mid_run = {
        let mut e = base.clone();
        e.condition.set_msd_threshold(1, mid);
        trajectories(&e, labels.clone()).ok()
    };
    if let Some((th, base_run)) = mid_run.map(|r| (mid, r)) {
        for k in 0..nstreams {
            if k == 1 {
                continue;
            }
            // a stream without multi-space weights has no voicing: its own threshold (also the
            // corner values 0 and 1) changes nothing at all and never produces the no-data marker
            for tk in [1.0, 0.0, rng.f64()] {
                let mut e = base.clone();
                e.condition.set_msd_threshold(1, th);
                e.condition.set_msd_threshold(k, tk);
                if let Ok(r) = trajectories(&e, labels.clone()) {
                    let nodata = r.spectrum.iter().flatten().chain(r.lpf.iter().flatten()).any(|x| *x == NODATA);
                    if nodata || !bits_eq2(&r.spectrum, &base_run.spectrum) || !bits_eq2(&r.lpf, &base_run.lpf) || !bits_eq2(&r.lf0, &base_run.lf0) {
                        ctx.violation(
                            "threshold-of-a-stream-without-voicing-changed-a-trajectory",
                            d(J::obj().set("stream", k).set("threshold", tk).set("no_data_marker_in_non_msd_stream", nodata)),
                        );
                        return;
                    }
                }
            }
            let mut e = base.clone();
            e.condition.set_msd_threshold(1, th);
            let tk = match rng.below(4) {
                0 => 0.0,
                1 => 1.0,
                _ => rng.f64(),
            };
            e.condition.set_msd_threshold(k, tk);
            e.condition.set_gv_weight(k, rng.uniform(0.0, 2.0));
            if let Ok(r) = trajectories(&e, labels.clone()) {
                if !bits_eq2(&r.lf0, &base_run.lf0) {
                    ctx.violation("another-streams-threshold-or-gv-weight-changed-f0", d(J::obj().set("stream", k)));
                    return;
                }
                for j in 0..nstreams {
                    if j == k || j == 1 {
                        continue;
                    }
                    let (a, b) = if j == 0 { (&r.spectrum, &base_run.spectrum) } else { (&r.lpf, &base_run.lpf) };
                    if !bits_eq2(a, b) {
                        ctx.violation("another-streams-threshold-or-gv-weight-changed-a-third-stream", d(J::obj().set("changed", k).set("affected", j)));
                        return;
                    }
                }
                ctx.count("isolation_checks", 1.0);
            }
        }
        // GV weight of stream 1 leaves stream 0 and 2 alone
        let mut e = base.clone();
        e.condition.set_msd_threshold(1, th);
        e.condition.set_gv_weight(1, rng.uniform(0.0, 2.0));
        if let Ok(r) = trajectories(&e, labels.clone()) {
            if !bits_eq2(&r.spectrum, &base_run.spectrum) || !bits_eq2(&r.lpf, &base_run.lpf) {
                ctx.violation("gv-weight-of-stream-1-changed-another-stream", d(J::Null));
                return;
            }
        }
    }
    // every stream is generated with ITS OWN threshold and GV weight: distinct random values per
    // stream, compared with the public building blocks run stream by stream
    {
        let mut e = base.clone();
        for k in 0..nstreams {
            e.condition.set_msd_threshold(k, if k == 1 { *rng.pick(&[mid, 0.0, 0.04]) } else { rng.f64() });
            e.condition.set_gv_weight(k, rng.uniform(0.2, 2.0));
        }
        if let Ok(run) = trajectories(&e, labels.clone()) {
            let want = crate::synth::trajectories_from_public_api(&e, &labels, &run.durations);
            let got = [&run.spectrum, &run.lf0, &run.lpf];
            for k in 0..nstreams {
                let dev = crate::synth::trajectory_deviation(got[k], &want[k]);
                ctx.max("per_stream_settings_worst_deviation", if dev.is_finite() { dev } else { 1e300 });
                if !(dev <= 1e-9) {
                    ctx.violation(
                        "stream-not-generated-with-its-own-threshold-and-gv-weight",
                        d(J::obj()
                            .set("stream", k)
                            .set("thresholds", J::Arr((0..nstreams).map(|i| J::Num(e.condition.get_msd_threshold(i))).collect()))
                            .set("gv_weights", J::Arr((0..nstreams).map(|i| J::Num(e.condition.get_gv_weight(i))).collect()))
                            .set("deviation", dev)),
                    );
                    return;
                }
            }
            ctx.count("per_stream_settings_checks", 1.0);
        }
    }
    if flips >= 1 {
        ctx.nontrivial(mix(&[hash_str(descr), hash_str(&to_strings(&labels).join("|")), flips as u64]));
    }
    if ctx.want_sample() {
        ctx.sample(d(J::obj().set("state_weights", fvec(&weights, 20)).set("frames_flipped_over_threshold_grid", flips)));
    }
}

pub fn run(ctx: &mut Ctx) {
    let env = Env::new(ctx);
    let bundled = env.load_bundled();
    let n = ctx.n(64, 1500);
    ctx.run_cases("bundled", n, false, |ctx, rng, _| {
        one_voice(ctx, &env, rng, &bundled, &env.bundled_ref, "bundled");
    });
    let n = ctx.n(6, 300);
    ctx.run_cases("perturbed", n, false, |ctx, rng, _| {
        let s = rng.uniform(0.1, 0.6);
        let bytes = voicegen::perturb(&env.bundled_bytes, rng, s);
        let Ok(rv) = read_voice(&bytes) else {
            ctx.inconclusive("reader on perturbed voice");
            return;
        };
        let p = env.voice_file(&bytes);
        let e = Engine::load(&[&p]);
        env.remove(&p);
        match e {
            Ok(e) => one_voice(ctx, &env, rng, &e, &rv, "perturbed"),
            Err(e) => ctx.violation("perturbed-voice-does-not-load", J::from(format!("{}", e))),
        }
    });
    let n = ctx.n(200, 4000);
    ctx.run_cases("synthetic", n, false, |ctx, rng, _| {
        let o = VoiceOpts::random(rng);
        match load_synthetic(&env, &o, rng) {
            Ok((e, rv)) => one_voice(ctx, &env, rng, &e, &rv, &format!("synthetic[{}]", o.describe())),
            Err(e) => ctx.inconclusive(&e),
        }
    });

    // several voices: the *interpolated* voicing weight decides
    let bundled_voice = std::sync::Arc::new(jbonsai::model::load_htsvoice_file(&env.bundled_path).expect("bundled loads"));
    let n = ctx.n(48, 2000);
    ctx.run_cases("multi-voice", n, false, |ctx, rng, idx| {
        use crate::env::{dyadic_weights, engine_from_voices};
        let nv = rng.range(2, 3);
        let mut voices = vec![bundled_voice.clone()];
        let mut descr = String::from("bundled");
        if idx % 2 == 0 {
            for _ in 1..nv {
                let st = rng.uniform(0.2, 0.6);
                let bytes = voicegen::perturb(&env.bundled_bytes, rng, st);
                let p = env.voice_file(&bytes);
                let v = jbonsai::model::load_htsvoice_file(&p);
                env.remove(&p);
                match v {
                    Ok(v) => voices.push(std::sync::Arc::new(v)),
                    Err(_) => return,
                }
            }
            descr.push_str("+perturbed");
        } else {
            voices.clear();
            let o = VoiceOpts::random(rng);
            for _ in 0..nv {
                let spec = voicegen::generate(&o, &env.pool, rng);
                let p = env.voice_file(&voicegen::write(&spec));
                let v = jbonsai::model::load_htsvoice_file(&p);
                env.remove(&p);
                match v {
                    Ok(v) => voices.push(std::sync::Arc::new(v)),
                    Err(_) => return,
                }
            }
            descr = format!("{}x generated[{}]", nv, o.describe());
        }
        let Ok(mut e) = engine_from_voices(voices.clone()) else {
            ctx.violation("engine-construction", J::from(descr.clone()));
            return;
        };
        let w = dyadic_weights(rng, voices.len(), idx % 3 == 0);
        // the GV and duration weights of the same engine get other vectors, before or after:
        // voicing follows the *parameter* weights of the log-F0 stream only
        let other_a = crate::env::dyadic_weights(rng, w.len(), false);
        let other_b = crate::env::dyadic_weights(rng, w.len(), false);
        if idx % 2 == 0 {
            let iw = e.condition.get_interporation_weight_mut();
            let _ = iw.set_gv(1, &other_a);
            let _ = iw.set_duration(&other_b);
        }
        let set_ok = e.condition.get_interporation_weight_mut().set_parameter(1, &w).is_ok();
        if idx % 2 == 1 {
            let iw = e.condition.get_interporation_weight_mut();
            let _ = iw.set_gv(1, &other_a);
            let _ = iw.set_gv(0, &other_b);
        }
        if !set_ok {
            ctx.violation("valid-weights-rejected", J::from(descr.clone()));
            return;
        }
        let nstate = e.voices.global_metadata().num_states;
        let labels = env.corpus.random_utterance(rng, 2, 8);
        // interpolated weight per state from the per-voice Gaussians
        let mut weights = Vec::new();
        for l in &labels {
            for s in 0..nstate {
                let terms: Vec<f64> = voices.iter().zip(&w).map(|(v, wv)| wv * v.stream_models[1].stream_model.get_parameter(s + 2, l).msd.unwrap_or(0.0)).collect();
                weights.push(terms.iter().sum::<f64>());
            }
        }
        let mut flips = 0;
        let mut prev: Option<Vec<bool>> = None;
        for th in [0.0, 0.1, 0.2, 0.35, 0.5, 0.65, 0.8, 0.9, 1.0] {
            e.condition.set_msd_threshold(1, th);
            let Ok(run) = trajectories(&e, labels.clone()) else {
                ctx.violation("synthesize-err", J::from(descr.clone()));
                return;
            };
            let fs = frame_states(&run.durations);
            let voiced: Vec<bool> = run.lf0.iter().map(|f| f[0] != NODATA).collect();
            if fs.len() != voiced.len() {
                ctx.violation("shape", J::from(descr.clone()));
                return;
            }
            for (t, s) in fs.iter().enumerate() {
                let wgt = weights[*s];
                if (wgt - th).abs() < 1e-9 {
                    continue; // blended weight within rounding of the threshold: not judged
                }
                if voiced[t] != (wgt > th) {
                    ctx.violation(
                        "voiced-iff-interpolated-weight-exceeds-threshold",
                        J::obj().set("voices", descr.clone()).set("f0_weights", fvec(&w, 8)).set("threshold", th).set("frame", t).set("state", *s).set("interpolated_weight", wgt).set("voiced", voiced[t]),
                    );
                    return;
                }
            }
            if let Some(p) = &prev {
                flips += p.iter().zip(&voiced).filter(|(a, b)| a != b).count();
            }
            prev = Some(voiced);
            ctx.count("frames_checked", fs.len() as f64);
        }
        if flips > 0 && w.iter().filter(|x| **x != 0.0).count() >= 2 {
            ctx.nontrivial(mix(&[21, hash_str(&descr), hash_str(&format!("{:?}", w)), flips as u64]));
        }
    });

    // transparent voices: the waveform is the excitation itself
    let n = ctx.n(160, 2000);
    ctx.run_cases("transparent", n, false, |ctx, rng, _| {
        let mut o = VoiceOpts::random(rng);
        o.transparent = true;
        o.stage = 0;
        o.nstreams = 2;
        o.gv_mcp = false;
        let (base, rv) = match load_synthetic(&env, &o, rng) {
            Ok(x) => x,
            Err(e) => {
                ctx.inconclusive(&e);
                return;
            }
        };
        let labels = env.corpus.random_utterance(rng, 2, 8);
        let mut e = base.clone();
        let th = *rng.pick(&[0.25, 0.5, 0.6, 0.75, 0.9, 0.01, 0.0]);
        e.condition.set_msd_threshold(1, th);
        // which frames are unvoiced is decided without a pitch shift; the rendering is checked
        // with one in half of the cases (an unvoiced frame stays noise whatever the shift)
        let pattern = match run_with_hooks(&e, labels.clone()) {
            Ok(r) => r,
            Err(er) => {
                ctx.violation("synthesize-err", J::from(format!("{}", er)));
                return;
            }
        };
        let half_tone = if rng.chance(0.5) { *rng.pick(&[3.0, -7.5, 0.25, 12.0]) } else { 0.0 };
        e.condition.set_additional_half_tone(half_tone);
        let mut run = match run_with_hooks(&e, labels.clone()) {
            Ok(r) => r,
            Err(er) => {
                ctx.violation("synthesize-err", J::from(format!("{}", er)));
                return;
            }
        };
        if run.lf0.len() != pattern.lf0.len() {
            ctx.violation("half-tone-changed-the-number-of-frames", J::obj().set("voice", o.describe()).set("half_tone", half_tone));
            return;
        }
        for (t, f) in run.lf0.iter_mut().enumerate() {
            if pattern.lf0[t][0] == NODATA {
                f[0] = NODATA;
            }
        }
        let _ = rv;
        let fp = e.condition.get_fperiod();
        let rate = e.condition.get_sampling_frequency();
        let nfr = run.lf0.len();
        // reference noise sequence from the public vocoder (all frames unvoiced)
        let mut v = Vocoder::new(2, 0, 0, false, rate, 0.0, 0.0, 1.0, fp);
        let mut noise = Vec::with_capacity(nfr * fp);
        let mut buf = vec![0.0; fp];
        for _ in 0..nfr {
            v.synthesize(NODATA, &[0.0, 0.0], &[], &mut buf);
            noise.extend_from_slice(&buf);
        }
        let mut k = 0usize; // noise cursor
        let mut unvoiced_frames = 0;
        let mut voiced_frames = 0;
        for t in 0..nfr {
            let seg = &run.wave[t * fp..(t + 1) * fp];
            if run.lf0[t][0] == NODATA {
                unvoiced_frames += 1;
                for x in seg {
                    if x.to_bits() != noise[k].to_bits() {
                        ctx.violation(
                            "unvoiced-frame-is-not-the-noise-sequence",
                            J::obj().set("voice", o.describe()).set("frame", t).set("got", *x).set("expected", noise[k]).set("threshold", th).set("half_tone", half_tone),
                        );
                        return;
                    }
                    k += 1;
                }
            } else {
                voiced_frames += 1;
                // pulses only: exact zeros and a few positive impulses
                let nz = seg.iter().filter(|x| **x != 0.0).count();
                // (the period glides from the previous frame's value: the shorter of the two bounds the count)
                let per = |l: f64| rate as f64 / l.clamp(2.995_732_273_553_991, 9.903_487_552_536_127).exp();
                let mut period = per(run.lf0[t][0]);
                if t > 0 && run.lf0[t - 1][0] != NODATA {
                    period = period.min(per(run.lf0[t - 1][0]));
                }
                let max_pulses = (fp as f64 / period.max(1.0)).ceil() as usize + 2;
                if seg.iter().any(|x| *x < 0.0) || nz > max_pulses {
                    ctx.violation(
                        "voiced-frame-contains-noise",
                        J::obj().set("voice", o.describe()).set("frame", t).set("nonzero_samples", nz).set("max_pulses", max_pulses).set("threshold", th),
                    );
                    return;
                }
            }
        }
        ctx.count("transparent_unvoiced_frames", unvoiced_frames as f64);
        ctx.count("transparent_voiced_frames", voiced_frames as f64);
        if unvoiced_frames > 0 && voiced_frames > 0 {
            ctx.nontrivial(mix(&[9, hash_str(&o.describe()), hash_str(&to_strings(&labels).join("|")), (th * 100.0) as u64]));
        }
    });
}
