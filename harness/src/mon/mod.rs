pub mod c01;
pub mod c02;
pub mod c03;
pub mod c04;
pub mod c05;
pub mod c08;
pub mod c09;
pub mod c10;
pub mod c11;
pub mod c12;
pub mod c06;
pub mod c07;
pub mod c13;
pub mod c14;
pub mod c15;
pub mod c16;
pub mod c17;
pub mod c18;
pub mod c19;
pub mod c20;
pub mod selftest;

use crate::ctx::Ctx;

pub fn dispatch(ctx: &mut Ctx) -> bool {
    match ctx.prop.as_str() {
        "selftest" => selftest::run(ctx),
        "C01" => c01::run(ctx),
        "C02" => c02::run(ctx),
        "C03" => c03::run(ctx),
        "C04" => c04::run(ctx),
        "C05" => c05::run(ctx),
        "C08" => c08::run(ctx),
        "C09" => c09::run(ctx),
        "C10" => c10::run(ctx),
        "C11" => c11::run(ctx),
        "C12" => c12::run(ctx),
        "C06" => c06::run(ctx),
        "C07" => c07::run(ctx),
        "C13" => c13::run(ctx),
        "C14" => {
            c14::run(ctx);
            c14::end_to_end(ctx);
        }
        "C15" => c15::run(ctx),
        "C16" => c16::run(ctx),
        "C17" => c17::run(ctx),
        "C18" => c18::run(ctx),
        "C19" => c19::run(ctx),
        "C20" => c20::run(ctx),
        _ => return false,
    }
    true
}
