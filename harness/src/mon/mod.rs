pub mod c01;
pub mod c02;
pub mod c05;
pub mod c08;
pub mod c06;
pub mod c07;
pub mod c13;
pub mod c14;
pub mod selftest;

use crate::ctx::Ctx;

pub fn dispatch(ctx: &mut Ctx) -> bool {
    match ctx.prop.as_str() {
        "selftest" => selftest::run(ctx),
        "C01" => c01::run(ctx),
        "C02" => c02::run(ctx),
        "C05" => c05::run(ctx),
        "C08" => c08::run(ctx),
        "C06" => c06::run(ctx),
        "C07" => c07::run(ctx),
        "C13" => c13::run(ctx),
        "C14" => c14::run(ctx),
        _ => return false,
    }
    true
}
