pub mod c01;
pub mod c06;
pub mod c13;
pub mod c14;
pub mod selftest;

use crate::ctx::Ctx;

pub fn dispatch(ctx: &mut Ctx) -> bool {
    match ctx.prop.as_str() {
        "selftest" => selftest::run(ctx),
        "C01" => c01::run(ctx),
        "C06" => c06::run(ctx),
        "C13" => c13::run(ctx),
        "C14" => c14::run(ctx),
        _ => return false,
    }
    true
}
