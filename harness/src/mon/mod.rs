pub mod c01;
pub mod selftest;

use crate::ctx::Ctx;

pub fn dispatch(ctx: &mut Ctx) -> bool {
    match ctx.prop.as_str() {
        "selftest" => selftest::run(ctx),
        "C01" => c01::run(ctx),
        _ => return false,
    }
    true
}
