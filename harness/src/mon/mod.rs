#[cfg(feature = "c01")]
pub mod c01;
#[cfg(feature = "c02")]
pub mod c02;
#[cfg(feature = "c03")]
pub mod c03;
#[cfg(feature = "c04")]
pub mod c04;
#[cfg(feature = "c05")]
pub mod c05;
#[cfg(feature = "c08")]
pub mod c08;
#[cfg(feature = "c09")]
pub mod c09;
#[cfg(feature = "c10")]
pub mod c10;
#[cfg(feature = "c11")]
pub mod c11;
#[cfg(feature = "c12")]
pub mod c12;
#[cfg(feature = "c06")]
pub mod c06;
#[cfg(feature = "c07")]
pub mod c07;
#[cfg(feature = "c13")]
pub mod c13;
#[cfg(feature = "c14")]
pub mod c14;
#[cfg(feature = "c15")]
pub mod c15;
#[cfg(feature = "c16")]
pub mod c16;
#[cfg(feature = "c17")]
pub mod c17;
#[cfg(feature = "c18")]
pub mod c18;
#[cfg(feature = "c19")]
pub mod c19;
#[cfg(feature = "c20")]
pub mod c20;
#[cfg(feature = "all")]
pub mod selftest;

use crate::ctx::Ctx;

pub fn dispatch(ctx: &mut Ctx) -> bool {
    match ctx.prop.as_str() {
        #[cfg(feature = "all")]
        "selftest" => selftest::run(ctx),
        #[cfg(feature = "c01")]
        "C01" => c01::run(ctx),
        #[cfg(feature = "c02")]
        "C02" => c02::run(ctx),
        #[cfg(feature = "c03")]
        "C03" => c03::run(ctx),
        #[cfg(feature = "c04")]
        "C04" => c04::run(ctx),
        #[cfg(feature = "c05")]
        "C05" => c05::run(ctx),
        #[cfg(feature = "c08")]
        "C08" => c08::run(ctx),
        #[cfg(feature = "c09")]
        "C09" => c09::run(ctx),
        #[cfg(feature = "c10")]
        "C10" => c10::run(ctx),
        #[cfg(feature = "c11")]
        "C11" => c11::run(ctx),
        #[cfg(feature = "c12")]
        "C12" => c12::run(ctx),
        #[cfg(feature = "c06")]
        "C06" => c06::run(ctx),
        #[cfg(feature = "c07")]
        "C07" => c07::run(ctx),
        #[cfg(feature = "c13")]
        "C13" => c13::run(ctx),
        #[cfg(feature = "c14")]
        "C14" => {
            c14::run(ctx);
            c14::voicing_switches(ctx);
            c14::moving_spectrum(ctx);
            c14::end_to_end(ctx);
        }
        #[cfg(feature = "c15")]
        "C15" => c15::run(ctx),
        #[cfg(feature = "c16")]
        "C16" => c16::run(ctx),
        #[cfg(feature = "c17")]
        "C17" => c17::run(ctx),
        #[cfg(feature = "c18")]
        "C18" => c18::run(ctx),
        #[cfg(feature = "c19")]
        "C19" => c19::run(ctx),
        #[cfg(feature = "c20")]
        "C20" => c20::run(ctx),
        _ => return false,
    }
    true
}
