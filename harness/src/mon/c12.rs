//! C12 — global variance restores the model's variance.

use crate::ctx::Ctx;
use crate::env::Env;
use crate::json::{fvec, J};
use crate::labels::to_strings;
use crate::refimpl::question_matches;
use crate::rng::{hash_str, mix, Rng};
use crate::synth::{ref_gv, trajectories, NODATA};
use crate::voicegen;
use crate::voiceread::{read_voice, RefVoice};
use jbonsai::mlpg_adjust::MlpgAdjust;
use jbonsai::model::Models;
use jbonsai::Engine;
use jlabel::Label;

/// window sets (ids of `voicegen::WINDOW_SETS`) with a 5-tap window used by `wide-windows`
const WIDE_SETS: [usize; 1] = [5];

fn traj_of(run: &crate::synth::Run, stream: usize) -> &Vec<Vec<f64>> {
    match stream {
        0 => &run.spectrum,
        1 => &run.lf0,
        _ => &run.lpf,
    }
}

fn bits_eq2(a: &[Vec<f64>], b: &[Vec<f64>]) -> bool {
    a.len() == b.len() && a.iter().zip(b).all(|(x, y)| x.len() == y.len() && x.iter().zip(y).all(|(p, q)| p.to_bits() == q.to_bits()))
}

/// eligible frames of a stream: voiced and label outside the GV-off contexts (own wildcard matcher)
fn eligibility(rv: &RefVoice, labels: &[Label], durations: &[usize], nstate: usize, voiced: &[bool]) -> Vec<bool> {
    let mut e = Vec::with_capacity(voiced.len());
    let mut t = 0;
    for (li, l) in labels.iter().enumerate() {
        let off = question_matches(&rv.gv_off_context, &l.to_string());
        for s in 0..nstate {
            for _ in 0..durations[li * nstate + s] {
                e.push(!off && voiced[t]);
                t += 1;
            }
        }
    }
    e
}

fn variance(vals: &[f64]) -> f64 {
    let n = vals.len() as f64;
    let m = vals.iter().sum::<f64>() / n;
    vals.iter().map(|x| (x - m) * (x - m)).sum::<f64>() / n
}

fn one(ctx: &mut Ctx, env: &Env, rng: &mut Rng, base: &Engine, rv: &RefVoice, descr: &str, idx: usize) {
    let nstate = rv.num_states;
    let nl = rng.range(10, if ctx.quick() { 30 } else { 60 });
    let mut labels: Vec<Label> = if idx % 2 == 0 { env.corpus.utterance(rng, nl, 0) } else { env.corpus.utterance(rng, nl, 1) };
    if idx % 5 == 4 {
        // pause-heavy: a short utterance with many pause labels mixed in, so that the eligible
        // frames are a small share of all frames (they may still number more than 100)
        labels.truncate(rng.range(10, 14));
        for _ in 0..rng.range(5, 9) {
            let at = rng.below(labels.len() + 1);
            labels.insert(at, env.corpus.silence_label(rng));
        }
        ctx.count("pause_heavy_utterances", 1.0);
    }
    let text0 = labels[0].to_string();
    let d = |extra: J| J::obj().set("voice", descr).set("nlabels", labels.len()).set("first_label", text0.clone()).set("observed", extra);
    let grid = [0.25, 0.5, 1.0, 2.0];
    let extra_w = rng.uniform(0.25, 2.0);
    for stream in 0..2usize {
        let Ok(Some(gv)) = ref_gv(rv, stream, &text0) else { continue };
        let vlen = rv.streams[stream].vector_length;
        let mut prev_var: Option<Vec<f64>> = None;
        let mut eligible_count = 0;
        for w in grid.iter().cloned().chain(std::iter::once(extra_w)) {
            let mut e = base.clone();
            e.condition.set_gv_weight(stream, w);
            let run = match trajectories(&e, labels.clone()) {
                Ok(r) => r,
                Err(er) => {
                    ctx.violation("synthesize-err", d(J::from(format!("{}", er))));
                    return;
                }
            };
            let tr = traj_of(&run, stream);
            let voiced: Vec<bool> = if stream == 1 { tr.iter().map(|f| f[0] != NODATA).collect() } else { vec![true; tr.len()] };
            let el = eligibility(rv, &labels, &run.durations, nstate, &voiced);
            eligible_count = el.iter().filter(|b| **b).count();
            if eligible_count < 100 {
                break;
            }
            let mut vars = Vec::new();
            for k in 0..vlen {
                let vals: Vec<f64> = tr.iter().zip(&el).filter(|(_, e)| **e).map(|(f, _)| f[k]).collect();
                let v = variance(&vals);
                let ratio = v / (w * gv.mean[k]);
                ctx.max("worst_ratio_above_1", ratio - 1.0);
                ctx.max("worst_ratio_below_1", 1.0 - ratio);
                if !(0.8..=1.2).contains(&ratio) {
                    ctx.violation(
                        "variance-not-restored",
                        d(J::obj().set("stream", stream).set("coefficient", k).set("gv_weight", w).set("variance", v).set("gv_mean", gv.mean[k]).set("ratio", ratio).set("eligible_frames", eligible_count)),
                    );
                    return;
                }
                vars.push(v);
                ctx.count("coefficient_variances_checked", 1.0);
            }
            // monotone over the fixed grid (the extra random weight is not part of the ordered grid)
            if w != extra_w || grid.contains(&w) {
                if let Some(pv) = &prev_var {
                    for k in 0..vlen {
                        if !(vars[k] > pv[k]) {
                            ctx.violation(
                                "variance-not-increasing-with-weight",
                                d(J::obj().set("stream", stream).set("coefficient", k).set("gv_weight", w).set("variance", vars[k]).set("previous", pv[k])),
                            );
                            return;
                        }
                    }
                }
                prev_var = Some(vars);
            }
        }
        if eligible_count >= 100 {
            ctx.nontrivial(mix(&[hash_str(descr), stream as u64, hash_str(&to_strings(&labels).join("|"))]));
            ctx.count("utterance_streams_with_100_eligible", 1.0);
        } else {
            ctx.count("utterance_streams_below_100_eligible", 1.0);
        }
    }
    // a stream without GV is unaffected by its GV weight
    let nstreams = rv.num_streams;
    for stream in 0..nstreams {
        if rv.streams[stream].use_gv {
            continue;
        }
        let r0 = trajectories(base, labels.clone());
        let mut e = base.clone();
        e.condition.set_gv_weight(stream, rng.uniform(0.0, 2.0));
        let r1 = trajectories(&e, labels.clone());
        if let (Ok(a), Ok(b)) = (r0, r1) {
            if !bits_eq2(traj_of(&a, stream), traj_of(&b, stream)) {
                ctx.violation("stream-without-gv-depends-on-gv-weight", d(J::obj().set("stream", stream)));
            }
            ctx.count("no_gv_stream_checks", 1.0);
        }
    }
    if ctx.want_sample() {
        ctx.sample(d(J::obj().set("labels_head", J::Arr(to_strings(&labels).into_iter().take(2).map(J::Str).collect()))));
    }
}

/// no eligible frame: the trajectory equals the plain maximum-likelihood solution
fn silence_case(ctx: &mut Ctx, env: &Env, rng: &mut Rng, base: &Engine, descr: &str) {
    let labels: Vec<Label> = (0..rng.range(1, 6)).map(|_| env.corpus.silence_label(rng)).collect();
    let mut e = base.clone();
    // voice everything so that frames exist but none is eligible (all labels are GV-off contexts)
    e.condition.set_msd_threshold(1, 0.0);
    let w = rng.uniform(0.25, 2.0);
    e.condition.set_gv_weight(0, w);
    e.condition.set_gv_weight(1, w);
    let Ok(run) = trajectories(&e, labels.clone()) else {
        ctx.violation("synthesize-err", J::from(descr));
        return;
    };
    let models = Models::new(&labels, &e.voices, e.condition.get_interporation_weight());
    for stream in 0..2usize {
        let mut ms = models.model_stream(stream);
        if ms.gv.is_none() {
            continue;
        }
        ms.gv = None;
        let plain = MlpgAdjust::new(w, e.condition.get_msd_threshold(stream), ms).create(&run.durations);
        let got = traj_of(&run, stream);
        let mut worst = 0.0f64;
        if plain.len() != got.len() {
            ctx.violation("shape", J::from(descr));
            return;
        }
        for (a, b) in plain.iter().zip(got) {
            for (x, y) in a.iter().zip(b) {
                worst = worst.max((x - y).abs() / (1.0 + x.abs()));
                if (x - y).is_nan() {
                    worst = f64::NAN;
                }
            }
        }
        ctx.max("no_eligible_frame_worst_deviation_from_ml", worst);
        ctx.count("no_eligible_frame_checks", 1.0);
        if !(worst <= 1e-9) {
            ctx.violation(
                "no-eligible-frame-but-trajectory-differs-from-ml",
                J::obj().set("voice", descr).set("stream", stream).set("gv_weight", w).set("worst", worst).set("labels", J::Arr(to_strings(&labels).into_iter().map(J::Str).collect())).set("head", fvec(&got[0], 6)),
            );
        }
    }
    ctx.nontrivial(mix(&[11, hash_str(descr), hash_str(&to_strings(&labels).join("|"))]));
}

pub fn run(ctx: &mut Ctx) {
    let env = Env::new(ctx);
    let bundled = env.load_bundled();
    let n = ctx.n(96, 4000);
    ctx.run_cases("bundled", n, false, |ctx, rng, idx| {
        one(ctx, &env, rng, &bundled, &env.bundled_ref, "bundled", idx);
    });
    let n = ctx.n(8, 400);
    ctx.run_cases("perturbed", n, false, |ctx, rng, idx| {
        let s = rng.uniform(0.05, 0.3);
        let bytes = voicegen::perturb(&env.bundled_bytes, rng, s);
        let Ok(rv) = read_voice(&bytes) else {
            ctx.inconclusive("reader on perturbed voice");
            return;
        };
        let p = env.voice_file(&bytes);
        let e = Engine::load(&[&p]);
        env.remove(&p);
        match e {
            Ok(e) => {
                for k in 0..3 {
                    one(ctx, &env, rng, &e, &rv, &format!("perturbed({:.2})", s), idx + k);
                }
            }
            Err(e) => ctx.violation("perturbed-voice-does-not-load", J::from(format!("{}", e))),
        }
    });
    // copies of the bundled voice whose header lists other GV-off contexts: a voiced phoneme
    // among them, fewer of them, or none at all (then every frame takes part)
    let n = ctx.n(24, 600);
    ctx.run_cases("gv-off-context", n, false, |ctx, rng, idx| {
        let lists = ["\"*-sil+*\",\"*-pau+*\",\"*-a+*\"", "\"*-a+*\",\"*-o+*\"", "", "\"*-sil+*\"", "\"*-i+*\",\"*-pau+*\",\"*-sil+*\",\"*-N+*\""];
        let list = lists[idx % lists.len()];
        let old = b"GV_OFF_CONTEXT:\"*-sil+*\",\"*-pau+*\"\n";
        let Some(at) = env.bundled_bytes.windows(old.len()).position(|w| w == old) else {
            ctx.inconclusive("bundled voice header has no GV_OFF_CONTEXT line of the expected form");
            return;
        };
        let mut bytes = env.bundled_bytes[..at].to_vec();
        bytes.extend_from_slice(format!("GV_OFF_CONTEXT:{}\n", list).as_bytes());
        bytes.extend_from_slice(&env.bundled_bytes[at + old.len()..]);
        let Ok(rv) = read_voice(&bytes) else {
            ctx.inconclusive("reader on a voice with another GV_OFF_CONTEXT list");
            return;
        };
        let p = env.voice_file(&bytes);
        let e = Engine::load(&[&p]);
        env.remove(&p);
        match e {
            Ok(e) => {
                for k in 0..2 {
                    one(ctx, &env, rng, &e, &rv, &format!("bundled with GV_OFF_CONTEXT:{}", list), idx + k);
                }
                ctx.count("voices_with_another_gv_off_context", 1.0);
            }
            Err(e) => ctx.violation("voice-with-another-gv-off-context-does-not-load", J::obj().set("list", list).set("err", format!("{}", e))),
        }
    });
    // a voice whose header switches GV off for a stream while the GV data is still in the file:
    // that stream must ignore its GV weight and equal the plain ML solution
    ctx.run_cases("gv-flag-off", 8, true, |ctx, rng, idx| {
        let stream_name = if idx % 2 == 0 { "LF0" } else { "MCP" };
        let stream = if idx % 2 == 0 { 1usize } else { 0usize };
        let key = format!("USE_GV[{}]:1", stream_name);
        let Some(pos) = env.bundled_bytes.windows(key.len()).position(|w| w == key.as_bytes()) else {
            ctx.inconclusive("bundled header has no USE_GV line to switch off");
            return;
        };
        let mut bytes = env.bundled_bytes.clone();
        bytes[pos + key.len() - 1] = b'0';
        let p = env.voice_file(&bytes);
        let e = Engine::load(&[&p]);
        env.remove(&p);
        let base = match e {
            Ok(e) => e,
            Err(er) => {
                ctx.violation("voice-with-gv-switched-off-does-not-load", J::from(format!("{}", er)));
                return;
            }
        };
        let labels = env.corpus.utterance(rng, 20, idx % 2);
        let mut ref_run: Option<crate::synth::Run> = None;
        for w in [1.0, 0.25, 2.0, 0.0] {
            let mut e = base.clone();
            e.condition.set_gv_weight(stream, w);
            let Ok(run) = trajectories(&e, labels.clone()) else {
                ctx.violation("synthesize-err", J::from("gv-flag-off"));
                return;
            };
            if let Some(r0) = &ref_run {
                if !bits_eq2(traj_of(r0, stream), traj_of(&run, stream)) {
                    ctx.violation("stream-without-gv-depends-on-gv-weight", J::obj().set("voice", format!("bundled with USE_GV[{}]:0", stream_name)).set("gv_weight", w));
                    return;
                }
            } else {
                // equals the plain ML solution
                let models = Models::new(&labels, &e.voices, e.condition.get_interporation_weight());
                let mut ms = models.model_stream(stream);
                let had_gv = ms.gv.is_some();
                ms.gv = None;
                let plain = MlpgAdjust::new(w, e.condition.get_msd_threshold(stream), ms).create(&run.durations);
                if had_gv || !bits_eq2(&plain, traj_of(&run, stream)) {
                    ctx.violation("stream-with-use-gv-0-still-uses-gv", J::obj().set("voice", format!("bundled with USE_GV[{}]:0", stream_name)).set("models_report_gv", had_gv));
                    return;
                }
                ref_run = Some(run);
            }
        }
        ctx.count("gv_flag_off_checks", 1.0);
        ctx.nontrivial(mix(&[13, idx as u64]));
    });
    // two voices with different GV targets: the variance follows the GV Gaussian blended with the
    // GV interpolation weights of that stream (not the parameter weights)
    let n = ctx.n(24, 400);
    ctx.run_cases("two-voices", n, false, |ctx, rng, idx| {
        use crate::env::engine_from_voices;
        use jbonsai::model::load_htsvoice_file;
        use std::sync::Arc;
        // two or three voices: the bundled one and copies whose GV means are scaled
        let three = idx % 3 == 2;
        let factor = *rng.pick(&[2.0, 0.5, 3.0]);
        let factor3 = *rng.pick(&[0.25, 4.0, 1.5]);
        let factors: Vec<f64> = if three { vec![1.0, factor, factor3] } else { vec![1.0, factor] };
        let mut vs = Vec::new();
        for f in &factors {
            let p = if *f == 1.0 { env.bundled_path.clone() } else { env.voice_file(&voicegen::scale_gv_means(&env.bundled_bytes, *f)) };
            let v = load_htsvoice_file(&p);
            if *f != 1.0 {
                env.remove(&p);
            }
            match v {
                Ok(v) => vs.push(Arc::new(v)),
                Err(_) => {
                    ctx.inconclusive("voice set with scaled GV means does not load");
                    return;
                }
            }
        }
        let Ok(mut e) = engine_from_voices(vs) else {
            ctx.violation("engine-construction", J::from("bundled + GV-scaled copies"));
            return;
        };
        let (wg, wp): (Vec<f64>, Vec<f64>) = if three {
            // (interior and leading zeros included)
            (rng.pick(&[vec![0.5, 0.0, 0.5], vec![0.0, 0.5, 0.5], vec![0.25, 0.0, 0.75], vec![0.25, 0.5, 0.25], vec![0.0, 0.0, 1.0]]).clone(), rng.pick(&[vec![0.5, 0.25, 0.25], vec![1.0, 0.0, 0.0], vec![0.25, 0.5, 0.25]]).clone())
        } else {
            (rng.pick(&[vec![1.0, 0.0], vec![0.0, 1.0], vec![0.5, 0.5], vec![0.25, 0.75]]).clone(), rng.pick(&[vec![0.5, 0.5], vec![1.0, 0.0], vec![0.75, 0.25]]).clone())
        };
        // extrapolating GV interpolation weights (a component above one, another below zero; the
        // sum is one and the blended GV mean stays positive)
        let wg = if idx % 4 == 1 || idx % 8 == 6 {
            let cands: Vec<Vec<f64>> = if three {
                vec![vec![1.5, -0.25, -0.25], vec![0.5, 1.0, -0.5], vec![-0.5, 0.25, 1.25], vec![1.25, 0.0, -0.25], vec![-0.25, 1.25, 0.0]]
            } else {
                vec![vec![1.5, -0.5], vec![1.25, -0.25], vec![-0.5, 1.5], vec![-0.25, 1.25]]
            };
            let ok: Vec<Vec<f64>> = cands.into_iter().filter(|w| w.iter().zip(&factors).map(|(w, f)| w * f).sum::<f64>() >= 0.25).collect();
            if ok.is_empty() { wg } else { ctx.count("extrapolating_gv_interpolation_weights", 1.0); rng.pick(&ok).clone() }
        } else {
            wg
        };
        let stream = idx % 2;
        {
            let iw = e.condition.get_interporation_weight_mut();
            // (either order: the two kinds of weights are independent of each other)
            let ok = if (idx / 2) % 2 == 0 {
                iw.set_parameter(stream, &wp).is_ok() && iw.set_gv(stream, &wg).is_ok()
            } else {
                iw.set_gv(stream, &wg).is_ok() && iw.set_parameter(stream, &wp).is_ok()
            };
            if !ok {
                ctx.violation("valid-weights-rejected", J::Null);
                return;
            }
        }
        let nl = rng.range(25, 45);
        let labels = env.corpus.utterance(rng, nl, 0);
        let text0 = labels[0].to_string();
        let Ok(Some(gv)) = ref_gv(&env.bundled_ref, stream, &text0) else { return };
        let gw = *rng.pick(&[0.5, 1.0, 2.0]);
        e.condition.set_gv_weight(stream, gw);
        let Ok(run) = trajectories(&e, labels.clone()) else {
            ctx.violation("synthesize-err", J::from("two-voices"));
            return;
        };
        let tr = traj_of(&run, stream);
        let voiced: Vec<bool> = if stream == 1 { tr.iter().map(|f| f[0] != NODATA).collect() } else { vec![true; tr.len()] };
        let el = eligibility(&env.bundled_ref, &labels, &run.durations, env.bundled_ref.num_states, &voiced);
        let cnt = el.iter().filter(|b| **b).count();
        if cnt < 100 {
            ctx.count("utterance_streams_below_100_eligible", 1.0);
            return;
        }
        let vlen = env.bundled_ref.streams[stream].vector_length;
        for k in 0..vlen {
            let vals: Vec<f64> = tr.iter().zip(&el).filter(|(_, e)| **e).map(|(f, _)| f[k]).collect();
            let v = variance(&vals);
            // interpolated GV mean: the second voice's is `factor` times the first's
            let target = gw * wg.iter().zip(&factors).map(|(w, f)| w * f * gv.mean[k]).sum::<f64>();
            let ratio = v / target;
            if !(0.8..=1.2).contains(&ratio) {
                ctx.violation(
                    "variance-does-not-follow-the-gv-interpolation-weights",
                    J::obj().set("stream", stream).set("coefficient", k).set("gv_interpolation_weights", fvec(&wg, 4)).set("parameter_interpolation_weights", fvec(&wp, 4)).set("gv_scales_of_the_voices", fvec(&factors, 4)).set("gv_weight", gw).set("ratio", ratio).set("eligible_frames", cnt),
                );
                return;
            }
            ctx.count("coefficient_variances_checked", 1.0);
        }
        ctx.nontrivial(mix(&[17, stream as u64, hash_str(&format!("{:?}{:?}{}{}", wg, wp, factor, gw)), hash_str(&text0)]));
    });
    // the bundled voice's statistics with the classic wider dynamic windows (5-tap delta):
    // the band of W'U^-1W is then wider than the number of windows. Replaced on the public
    // `ModelStream` (the object `Engine::generator` hands to `MlpgAdjust`), same 20 % law.
    let n = ctx.n(16, 600);
    ctx.run_cases("wide-windows", n, false, |ctx, rng, idx| {
        use jbonsai::model::voice::window::{Window, Windows};
        let set = WIDE_SETS[idx % WIDE_SETS.len()];
        let wins = voicegen::window_set(set);
        let windows = Windows::new(wins.iter().map(|w| Window::new(w.clone())).collect());
        let nl = rng.range(25, 50);
        let labels = env.corpus.utterance(rng, nl, 0);
        let text0 = labels[0].to_string();
        let Ok(base_run) = trajectories(&bundled, labels.clone()) else {
            ctx.violation("synthesize-err", J::from("wide-windows"));
            return;
        };
        let models = Models::new(&labels, &bundled.voices, bundled.condition.get_interporation_weight());
        for stream in 0..2usize {
            let Ok(Some(gv)) = ref_gv(&env.bundled_ref, stream, &text0) else { continue };
            let vlen = env.bundled_ref.streams[stream].vector_length;
            let mut prev: Option<Vec<f64>> = None;
            for w in [0.25, 0.5, 1.0, 2.0] {
                let mut ms = models.model_stream(stream);
                ms.windows = &windows;
                let tr = MlpgAdjust::new(w, bundled.condition.get_msd_threshold(stream), ms).create(&base_run.durations);
                let voiced: Vec<bool> = if stream == 1 { tr.iter().map(|f| f[0] != NODATA).collect() } else { vec![true; tr.len()] };
                let el = eligibility(&env.bundled_ref, &labels, &base_run.durations, env.bundled_ref.num_states, &voiced);
                let cnt = el.iter().filter(|b| **b).count();
                if cnt < 100 {
                    ctx.count("utterance_streams_below_100_eligible", 1.0);
                    break;
                }
                let mut vars = Vec::new();
                for k in 0..vlen {
                    let vals: Vec<f64> = tr.iter().zip(&el).filter(|(_, e)| **e).map(|(f, _)| f[k]).collect();
                    let v = variance(&vals);
                    let ratio = v / (w * gv.mean[k]);
                    ctx.max(&format!("wide_set{}_stream{}_worst_above_1", set, stream), ratio - 1.0);
                    ctx.max(&format!("wide_set{}_stream{}_worst_below_1", set, stream), 1.0 - ratio);
                    if !(0.8..=1.2).contains(&ratio) {
                        ctx.violation(
                            "variance-not-restored-with-wide-windows",
                            J::obj().set("window_set", set).set("stream", stream).set("coefficient", k).set("gv_weight", w).set("ratio", ratio).set("eligible_frames", cnt).set("first_label", text0.clone()).set("nlabels", labels.len()),
                        );
                        return;
                    }
                    vars.push(v);
                    ctx.count("coefficient_variances_checked", 1.0);
                }
                if let Some(pv) = &prev {
                    if let Some(k) = (0..vlen).find(|k| !(vars[*k] > pv[*k])) {
                        ctx.violation("variance-not-increasing-with-weight", J::obj().set("window_set", set).set("stream", stream).set("coefficient", k).set("gv_weight", w));
                        return;
                    }
                }
                prev = Some(vars);
            }
        }
        ctx.nontrivial(mix(&[19, set as u64, hash_str(&to_strings(&labels).join("|"))]));
    });
    let n = ctx.n(24, 1000);
    ctx.run_cases("silence-only", n, false, |ctx, rng, _| {
        silence_case(ctx, &env, rng, &bundled, "bundled");
    });
}
