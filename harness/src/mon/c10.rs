//! C10 — voice interpolation is the weighted average.

use crate::ctx::Ctx;
use crate::env::{dyadic_weights, engine_from_voices, Env};
use crate::json::{fvec, J};
use crate::rng::{hash_str, mix, Rng};
use crate::voicegen::{self, VoiceOpts};
use jbonsai::model::interporation_weight::InterporationWeight;
use jbonsai::model::{load_htsvoice_file, MeanVari, Models, Voice, VoiceSet};
use jlabel::Label;
use std::sync::Arc;

const EPS: f64 = f64::EPSILON;

/// bit-equal, except that the sign of a zero does not matter (-0.0 * 1 + 0 * x is +0.0)
fn same_value(a: f64, b: f64) -> bool {
    a.to_bits() == b.to_bits() || (a == 0.0 && b == 0.0)
}

fn within(got: f64, terms: &[f64]) -> bool {
    let want: f64 = terms.iter().sum();
    let scale: f64 = terms.iter().map(|t| t.abs()).sum();
    (got - want).abs() <= 8.0 * EPS * scale + f64::MIN_POSITIVE
}

struct Set {
    voices: Vec<Arc<Voice>>,
    descr: String,
    identical: bool,
}

fn make_set(env: &Env, rng: &mut Rng, bundled: &Arc<Voice>) -> Result<Set, String> {
    let n = rng.range(1, 4);
    match rng.below(4) {
        0 => {
            // bundled + perturbed copies
            let mut voices = vec![bundled.clone()];
            for _ in 1..n {
                let strength = rng.uniform(0.1, 0.5);
                let bytes = voicegen::perturb(&env.bundled_bytes, rng, strength);
                let p = env.voice_file(&bytes);
                let v = load_htsvoice_file(&p).map_err(|e| format!("perturbed voice does not load: {}", e))?;
                env.remove(&p);
                voices.push(Arc::new(v));
            }
            rng.shuffle(&mut voices);
            Ok(Set { voices, descr: format!("bundled+{}perturbed", n - 1), identical: false })
        }
        1 => {
            // identical voices
            Ok(Set { voices: vec![bundled.clone(); n], descr: format!("{}x bundled (identical)", n), identical: true })
        }
        _ => {
            // generated voices with equal metadata but different trees and PDFs
            let o = VoiceOpts::random(rng);
            let mut voices = Vec::new();
            for _ in 0..n {
                // (the order in which a file lists its per-state trees is each voice's own business)
                let mut o = o.clone();
                o.trees_reversed = rng.chance(0.4);
                let spec = voicegen::generate(&o, &env.pool, rng);
                let bytes = voicegen::write(&spec);
                let p = env.voice_file(&bytes);
                let v = load_htsvoice_file(&p).map_err(|e| format!("LOADFAIL {}", e))?;
                env.remove(&p);
                voices.push(Arc::new(v));
            }
            // the same voice object listed twice in a row after a different one ([A, B, B]), or a
            // voice that differs from the first one in its duration model only
            let mut descr = format!("{}x generated[{}]", n, o.describe());
            match rng.below(6) {
                0 if voices.len() >= 2 && voices.len() < 4 => {
                    let last = voices[voices.len() - 1].clone();
                    voices.push(last);
                    descr = format!("{} + the last voice object once more", descr);
                }
                1 if voices.len() >= 2 => {
                    let mut c = (*voices[0]).clone();
                    c.duration_model = voices[1].duration_model.clone();
                    let k = voices.len() - 1;
                    voices[k] = Arc::new(c);
                    descr = format!("{} with the last voice = the first one with the second one's duration model", descr);
                }
                _ => {}
            }
            Ok(Set { voices, descr, identical: false })
        }
    }
}

pub fn run(ctx: &mut Ctx) {
    let env = Env::new(ctx);
    let bundled = Arc::new(load_htsvoice_file(&env.bundled_path).expect("bundled loads"));
    let n = ctx.n(480, 40000);
    ctx.run_cases("parameters", n, false, |ctx, rng, idx| {
        let set = match make_set(&env, rng, &bundled) {
            Ok(s) => s,
            Err(e) => {
                if e.starts_with("LOADFAIL") {
                    ctx.violation("generated-voice-does-not-load", J::from(e));
                } else {
                    ctx.inconclusive(&e);
                }
                return;
            }
        };
        let nv = set.voices.len();
        let vs = match VoiceSet::new(set.voices.clone()) {
            Ok(v) => v,
            Err(e) => {
                ctx.violation("compatible-voices-rejected", J::obj().set("err", format!("{}", e)).set("set", set.descr.clone()));
                return;
            }
        };
        let nstream = vs.global_metadata().num_streams;
        let nstate = vs.global_metadata().num_states;
        let mut iw = InterporationWeight::new(nv, nstream);
        let wild = idx % 3 == 0;
        let vertex = idx % 5 == 0 && idx % 6 != 1; // (idx % 6 == 1: weights stay at their defaults)
        let mk = |rng: &mut Rng| -> Vec<f64> {
            if vertex {
                let mut w = vec![0.0; nv];
                w[0] = 1.0;
                w
            } else {
                dyadic_weights(rng, nv, wild)
            }
        };
        // one case in six leaves every weight at its default: equal weights 1/n
        let defaults = idx % 6 == 1;
        let mk = |rng: &mut Rng| -> Vec<f64> { if defaults { vec![1.0 / nv as f64; nv] } else { mk(rng) } };
        // one case in eight: decimal fractions (their sum is 1 only up to a rounding residue,
        // which the setters accept), negative and over-unity components included
        let decimal = idx % 8 == 6 && !defaults && !vertex && nv >= 2;
        let mk = |rng: &mut Rng| -> Vec<f64> {
            if !decimal {
                return mk(rng);
            }
            let mut w: Vec<f64> = (0..nv - 1).map(|_| (rng.range(0, 240) as f64 - 80.0) / 100.0).collect();
            let rest = 1.0 - w.iter().sum::<f64>();
            w.insert(rng.below(nv), (rest * 100.0).round() / 100.0);
            w
        };
        let wd = mk(rng);
        let wp: Vec<Vec<f64>> = (0..nstream).map(|_| mk(rng)).collect();
        let mut wg: Vec<Vec<f64>> = (0..nstream).map(|_| mk(rng)).collect();
        // the three kinds of weights are independent of each other: they are set in varying
        // order, sometimes the GV weights of a stream equal its parameter weights, and
        // sometimes the GV weights of a stream are left at their default (1/n)
        let order = (idx / 7) % 4;
        let mut gv_left_default = vec![false; nstream];
        if !defaults {
            for i in 0..nstream {
                if rng.chance(0.15) {
                    wg[i] = wp[i].clone();
                } else if rng.chance(0.15) {
                    gv_left_default[i] = true;
                    wg[i] = vec![1.0 / nv as f64; nv];
                }
            }
        }
        let mut setters_ok = true;
        if !defaults {
            setters_ok &= iw.set_duration(&wd).is_ok();
            {
                // a call that is rejected (one weight too many, sum still 1) must leave the weights as they were
                let mut bad = vec![0.0];
                bad.extend_from_slice(&wd);
                if iw.set_duration(&bad).is_err() {
                    ctx.count("rejected_set_duration_after_the_valid_one", 1.0);
                }
            }
            match order {
                0 => {
                    for i in 0..nstream {
                        setters_ok &= iw.set_parameter(i, &wp[i]).is_ok();
                        if !gv_left_default[i] {
                            setters_ok &= iw.set_gv(i, &wg[i]).is_ok();
                        }
                    }
                }
                1 => {
                    for i in 0..nstream {
                        if !gv_left_default[i] {
                            setters_ok &= iw.set_gv(i, &wg[i]).is_ok();
                        }
                        setters_ok &= iw.set_parameter(i, &wp[i]).is_ok();
                    }
                }
                2 => {
                    for i in 0..nstream {
                        if !gv_left_default[i] {
                            setters_ok &= iw.set_gv(i, &wg[i]).is_ok();
                        }
                    }
                    for i in (0..nstream).rev() {
                        setters_ok &= iw.set_parameter(i, &wp[i]).is_ok();
                    }
                }
                _ => {
                    for i in 0..nstream {
                        setters_ok &= iw.set_parameter(i, &wp[i]).is_ok();
                    }
                    for i in 0..nstream {
                        if !gv_left_default[i] {
                            setters_ok &= iw.set_gv(i, &wg[i]).is_ok();
                        }
                    }
                }
            }
        }
        let descr = |extra: J| {
            J::obj()
                .set("set", set.descr.clone())
                .set("w_duration", fvec(&wd, 8))
                .set("w_parameter", J::Arr(wp.iter().map(|w| fvec(w, 8)).collect()))
                .set("w_gv", J::Arr(wg.iter().map(|w| fvec(w, 8)).collect()))
                .set("observed", extra)
        };
        if !setters_ok {
            if decimal {
                // (a sum that is 1 only up to a few ulps is in the grey zone: the setter may refuse it)
                ctx.count("decimal_weight_cases_refused_by_a_setter", 1.0);
                return;
            }
            ctx.violation("valid-weights-rejected", descr(J::Null));
            return;
        }
        if decimal {
            ctx.count("decimal_weight_cases", 1.0);
        }
        let labels: Vec<Label> = (0..if ctx.quick() { 12 } else { 50 })
            .map(|i| if i % 2 == 0 { rng.pick(&env.corpus.labels).clone() } else { env.corpus.recombine(rng) })
            .collect();
        let models = Models::new(&labels, &vs, &iw);
        // ---- duration
        let dur = models.duration();
        if dur.len() != labels.len() * nstate {
            ctx.violation("duration-count", descr(J::obj().set("len", dur.len())));
            return;
        }
        let mut differ = false;
        for (li, l) in labels.iter().enumerate() {
            let per: Vec<&Vec<MeanVari>> = set.voices.iter().map(|v| &v.duration_model.get_parameter(2, l).parameters).collect();
            for s in 0..nstate {
                let got = dur[li * nstate + s];
                let tm: Vec<f64> = (0..nv).map(|v| wd[v] * per[v][s].0).collect();
                let tv: Vec<f64> = (0..nv).map(|v| wd[v] * per[v][s].1).collect();
                if !within(got.0, &tm) || !within(got.1, &tv) {
                    ctx.violation(
                        "duration-not-weighted-average",
                        descr(J::obj().set("label", l.to_string()).set("state", s).set("got", J::Arr(vec![J::Num(got.0), J::Num(got.1)])).set("expected_mean", tm.iter().sum::<f64>())),
                    );
                    return;
                }
                if vertex && (!same_value(got.0, per[0][s].0) || !same_value(got.1, per[0][s].1)) {
                    ctx.violation("vertex-duration-not-first-voice", descr(J::obj().set("state", s)));
                    return;
                }
                differ |= (1..nv).any(|v| per[v][s] != per[0][s]);
            }
        }
        // ---- streams and GV
        for si in 0..nstream {
            let ms = models.model_stream(si);
            if ms.stream.len() != labels.len() * nstate {
                ctx.violation("stream-count", descr(J::obj().set("stream", si)));
                return;
            }
            for (li, l) in labels.iter().enumerate() {
                for s in 0..nstate {
                    let per: Vec<_> = set.voices.iter().map(|v| v.stream_models[si].stream_model.get_parameter(s + 2, l)).collect();
                    let (g, msd) = &ms.stream[li * nstate + s];
                    for (k, mv) in g.iter().enumerate() {
                        let tm: Vec<f64> = (0..nv).map(|v| wp[si][v] * per[v].parameters[k].0).collect();
                        let tv: Vec<f64> = (0..nv).map(|v| wp[si][v] * per[v].parameters[k].1).collect();
                        if !within(mv.0, &tm) || !within(mv.1, &tv) {
                            ctx.violation(
                                "stream-not-weighted-average",
                                descr(J::obj().set("stream", si).set("label", l.to_string()).set("state", s).set("component", k).set("got", J::Arr(vec![J::Num(mv.0), J::Num(mv.1)]))),
                            );
                            return;
                        }
                        if vertex && (!same_value(mv.0, per[0].parameters[k].0) || !same_value(mv.1, per[0].parameters[k].1)) {
                            ctx.violation("vertex-stream-not-first-voice", descr(J::obj().set("stream", si)));
                            return;
                        }
                        differ |= (1..nv).any(|v| per[v].parameters[k] != per[0].parameters[k]);
                    }
                    match per[0].msd {
                        Some(_) => {
                            let t: Vec<f64> = (0..nv).map(|v| wp[si][v] * per[v].msd.unwrap_or(0.0)).collect();
                            if !within(*msd, &t) {
                                ctx.violation(
                                    "voicing-weight-not-weighted-average",
                                    descr(J::obj().set("stream", si).set("state", s).set("got", *msd).set("expected", t.iter().sum::<f64>())),
                                );
                                return;
                            }
                        }
                        None => {
                            if *msd != f64::MAX {
                                ctx.violation("non-msd-stream-has-voicing-weight", descr(J::obj().set("stream", si).set("got", *msd)));
                                return;
                            }
                        }
                    }
                    ctx.count("gaussians_compared", 1.0);
                }
            }
            // GV Gaussian: selected by the first label, blended with the GV weights of this stream
            let use_gv = vs.stream_metadata(si).use_gv;
            match (&ms.gv, use_gv) {
                (Some((g, sw)), true) => {
                    let per: Vec<_> = set.voices.iter().map(|v| v.stream_models[si].gv_model.as_ref().unwrap().get_parameter(2, &labels[0])).collect();
                    for (k, mv) in g.iter().enumerate() {
                        let tm: Vec<f64> = (0..nv).map(|v| wg[si][v] * per[v].parameters[k].0).collect();
                        let tv: Vec<f64> = (0..nv).map(|v| wg[si][v] * per[v].parameters[k].1).collect();
                        if !within(mv.0, &tm) || !within(mv.1, &tv) {
                            ctx.violation(
                                "gv-not-weighted-average-with-gv-weights",
                                descr(J::obj().set("stream", si).set("component", k).set("got", J::Arr(vec![J::Num(mv.0), J::Num(mv.1)])).set("expected_mean", tm.iter().sum::<f64>())),
                            );
                            return;
                        }
                    }
                    if sw.len() != labels.len() * nstate {
                        ctx.violation("gv-switch-count", descr(J::obj().set("stream", si)));
                        return;
                    }
                    ctx.count("gv_gaussians_compared", 1.0);
                }
                (None, false) => {}
                _ => {
                    ctx.violation("gv-presence", descr(J::obj().set("stream", si)));
                    return;
                }
            }
        }
        if set.identical {
            // blending identical voices reproduces the single voice up to rounding: covered by `within`
            ctx.count("identical_sets", 1.0);
        }
        if nv >= 2 && differ && !vertex {
            ctx.nontrivial(mix(&[hash_str(&set.descr), hash_str(&format!("{:?}{:?}{:?}", wd, wp, wg)), labels.len() as u64]));
        }
        if ctx.want_sample() {
            ctx.sample(descr(J::obj().set("labels", labels.len()).set("voices", nv)));
        }
    });

    // ---- end to end: the engine's trajectories for interior weights are the ones the public
    // building blocks give for the same weights (model view -> per-stream generation), with the
    // additional half tone left at 0
    let n = ctx.n(96, 3000);
    ctx.run_cases("blend-end-to-end", n, false, |ctx, rng, idx| {
        let set = match make_set(&env, rng, &bundled) {
            Ok(s) => s,
            Err(e) => {
                ctx.inconclusive(&e);
                return;
            }
        };
        let nv = set.voices.len();
        if nv < 2 {
            ctx.count("single_voice_sets_skipped", 1.0);
            return;
        }
        let Ok(mut multi) = engine_from_voices(set.voices.clone()) else {
            ctx.violation("engine-construction", J::from(set.descr.clone()));
            return;
        };
        let nstream = multi.voices.global_metadata().num_streams;
        let mut used: Vec<Vec<f64>> = Vec::new();
        {
            let iw = multi.condition.get_interporation_weight_mut();
            let mut ok = true;
            let wd = dyadic_weights(rng, nv, false);
            ok &= iw.set_duration(&wd).is_ok();
            // (one case in four: every stream's parameter weights are the same vertex while the
            // duration and GV weights stay inside the simplex)
            let vertex_k = if idx % 4 == 1 { Some(rng.below(nv)) } else { None };
            for i in 0..nstream {
                let w = if let Some(k) = vertex_k {
                    let mut w = vec![0.0; nv];
                    w[k] = 1.0;
                    w
                } else if i == 1 && nv == 2 && idx % 2 == 0 {
                    // the band in which two voices that disagree on voicing give a voiced state
                    // with a low mean
                    let a = (rng.range(29, 45) as f64) / 64.0;
                    if rng.chance(0.5) { vec![a, 1.0 - a] } else { vec![1.0 - a, a] }
                } else {
                    dyadic_weights(rng, nv, false)
                };
                ok &= iw.set_parameter(i, &w).is_ok();
                let g = dyadic_weights(rng, nv, false);
                ok &= iw.set_gv(i, &g).is_ok();
                used.push(w);
            }
            if !ok {
                ctx.violation("valid-weights-rejected", J::from(set.descr.clone()));
                return;
            }
        }
        let labels = env.corpus.random_utterance(rng, 1, if ctx.quick() { 6 } else { 20 });
        let Ok(run) = crate::synth::trajectories(&multi, labels.clone()) else {
            ctx.violation("synthesize-err", J::from(set.descr.clone()));
            return;
        };
        // the durations the engine chose are those of the duration Gaussians blended with the
        // duration weights
        {
            let models = Models::new(&labels, &multi.voices, multi.condition.get_interporation_weight());
            let d = jbonsai::duration::DurationEstimator::new(models.duration(), models.nstate()).create(multi.condition.get_speed());
            if d != run.durations {
                ctx.violation(
                    "engine-durations-are-not-those-of-the-weighted-duration-model",
                    J::obj().set("set", set.descr.clone()).set("engine", J::from(run.durations.clone())).set("weighted_model", J::from(d)),
                );
                return;
            }
        }
        let want = crate::synth::trajectories_from_public_api(&multi, &labels, &run.durations);
        let got = [&run.spectrum, &run.lf0, &run.lpf];
        for k in 0..nstream {
            let dev = crate::synth::trajectory_deviation(got[k], &want[k]);
            ctx.max("blend_end_to_end_worst_deviation", if dev.is_finite() { dev } else { 1e300 });
            if !(dev <= 1e-9) {
                ctx.violation(
                    "engine-trajectories-are-not-those-of-the-weighted-model",
                    J::obj()
                        .set("set", set.descr.clone())
                        .set("stream", k)
                        .set("parameter_weights", J::Arr(used.iter().map(|w| fvec(w, 8)).collect()))
                        .set("deviation", dev),
                );
                return;
            }
        }
        ctx.count("blended_utterances_compared_end_to_end", 1.0);
        ctx.count("blended_voiced_frames", run.lf0.iter().filter(|f| f[0] != crate::synth::NODATA).count() as f64);
        ctx.nontrivial(mix(&[9, hash_str(&set.descr), run.durations.len() as u64]));
    });

    // ---- end to end: vertex weights reproduce the first voice's waveform bit for bit
    let n = ctx.n(48, 2000);
    ctx.run_cases("vertex-waveform", n, false, |ctx, rng, _| {
        let set = match make_set(&env, rng, &bundled) {
            Ok(s) => s,
            Err(e) => {
                ctx.inconclusive(&e);
                return;
            }
        };
        let nv = set.voices.len();
        let (Ok(mut multi), Ok(single)) = (engine_from_voices(set.voices.clone()), engine_from_voices(vec![set.voices[0].clone()])) else {
            ctx.violation("engine-construction", J::from(set.descr.clone()));
            return;
        };
        let nstream = multi.voices.global_metadata().num_streams;
        let mut w = vec![0.0; nv];
        w[0] = 1.0;
        let iw = multi.condition.get_interporation_weight_mut();
        let mut ok = iw.set_duration(&w).is_ok();
        for i in 0..nstream {
            ok &= iw.set_parameter(i, &w).is_ok();
            ok &= iw.set_gv(i, &w).is_ok();
        }
        if !ok {
            ctx.violation("vertex-weights-rejected", J::from(set.descr.clone()));
            return;
        }
        let labels = env.corpus.random_utterance(rng, 1, if ctx.quick() { 5 } else { 20 });
        let a = multi.synthesize(labels.clone());
        let b = single.synthesize(labels.clone());
        match (a, b) {
            (Ok(a), Ok(b)) => {
                let same = a.len() == b.len() && a.iter().zip(&b).all(|(x, y)| same_value(*x, *y));
                ctx.count("vertex_waveforms_compared", 1.0);
                if !same {
                    ctx.violation("vertex-waveform-differs-from-first-voice", J::obj().set("set", set.descr.clone()).set("len_multi", a.len()).set("len_single", b.len()));
                }
                if nv >= 2 {
                    ctx.nontrivial(mix(&[7, hash_str(&set.descr), a.len() as u64]));
                }
            }
            _ => ctx.violation("synthesize-err", J::from(set.descr.clone())),
        }
    });
}
