//! C16 — volume is a pure gain in decibels.

use crate::ctx::Ctx;
use crate::env::{Cond, Env};
use crate::json::J;
use crate::mon::c01::load_synthetic;
use crate::rng::{hash_str, mix};
use crate::voicegen::VoiceOpts;
use jbonsai::Engine;

pub fn run(ctx: &mut Ctx) {
    let env = Env::new(ctx);
    let bundled = env.load_bundled();
    let n = ctx.n(300, 8000);
    ctx.run_cases("gain", n, false, |ctx, rng, idx| {
        let (base, descr): (Engine, String) = if idx % 3 == 0 {
            (bundled.clone(), "bundled".into())
        } else {
            let o = VoiceOpts::random(rng);
            match load_synthetic(&env, &o, rng) {
                Ok((e, _)) => (e, format!("synthetic[{}]", o.describe())),
                Err(e) => {
                    ctx.inconclusive(&e);
                    return;
                }
            }
        };
        let mut base = base;
        let mut cond = Cond::random(rng, base.voices.global_metadata().num_streams, false);
        cond.volume_db = None;
        cond.apply(&mut base);
        let v = match idx % 6 {
            0 => 0.0,
            1 => 6.020599913279624,
            2 => -6.020599913279624,
            3 => *rng.pick(&[60.0, -60.0, 20.0, -20.0]),
            4 => *rng.pick(&[0.001, -0.001, 0.005, -0.008, 1e-6, -1e-9, 0.0086, 0.05]),
            _ => rng.uniform(-60.0, 60.0),
        };
        let labels = env.corpus.random_utterance(rng, 1, if ctx.quick() { 5 } else { 20 });
        let y0 = match base.synthesize(labels.clone()) {
            Ok(y) => y,
            Err(e) => {
                ctx.violation("synthesize-err", J::from(format!("{}", e)));
                return;
            }
        };
        // three routes to "the same engine at volume v"
        let route = (idx / 6) % 3;
        let mut ev = base.clone();
        match route {
            0 => ev.condition.set_volume(v),
            1 => {
                // a used engine: another volume first (and a rendering at it), then v; the 0 dB
                // reference must likewise be reachable by setting 0.0 after a non-zero volume
                let w = *rng.pick(&[3.0, -12.5, 0.25, 40.0]);
                ev.condition.set_volume(w);
                let _ = ev.synthesize(labels.clone());
                let mut e0 = ev.clone();
                e0.condition.set_volume(0.0);
                if e0.condition.get_volume() != 0.0 {
                    ctx.violation("volume-read-back", J::obj().set("voice", descr.clone()).set("history", format!("set_volume({}) then set_volume(0.0)", w)).set("got", e0.condition.get_volume()));
                }
                match e0.synthesize(labels.clone()) {
                    Ok(y) if y.len() == y0.len() && y.iter().zip(&y0).all(|(a, b)| a.to_bits() == b.to_bits()) => {}
                    _ => {
                        ctx.violation("back-to-0db-differs-from-never-changed", J::obj().set("voice", descr.clone()).set("history", format!("set_volume({}) then set_volume(0.0)", w)));
                    }
                }
                ev.condition.set_volume(v);
            }
            _ => {
                // the volume is set on the condition *before* the voices' defaults are loaded into it
                let mut c = jbonsai::Condition::default();
                c.set_volume(v);
                if c.load_model(&base.voices).is_err() {
                    ctx.violation("load-model-err", J::from(descr.clone()));
                    return;
                }
                ev = Engine::new(base.voices.clone(), c);
                cond.apply(&mut ev);
            }
        }
        ctx.count(&format!("route_{}", route), 1.0);
        let d = |extra: J| J::obj().set("voice", descr.clone()).set("volume_db", v).set("route", route).set("cond", cond.to_json()).set("observed", extra);
        // read-back
        let back = ev.condition.get_volume();
        if !((back - v).abs() <= 1e-12 * v.abs().max(1.0)) {
            ctx.violation("volume-read-back", d(J::obj().set("got", back)));
        }
        // nothing else changes
        let c0 = &base.condition;
        let c1 = &ev.condition;
        let same_rest = c0.get_speed() == c1.get_speed()
            && c0.get_alpha() == c1.get_alpha()
            && c0.get_beta() == c1.get_beta()
            && c0.get_fperiod() == c1.get_fperiod()
            && c0.get_sampling_frequency() == c1.get_sampling_frequency()
            && c0.get_additional_half_tone() == c1.get_additional_half_tone()
            && c0.get_phoneme_alignment_flag() == c1.get_phoneme_alignment_flag();
        if !same_rest {
            ctx.violation("set-volume-changed-another-setting", d(J::Null));
        }
        let yv = match ev.synthesize(labels.clone()) {
            Ok(y) => y,
            Err(e) => {
                ctx.violation("synthesize-err", J::from(format!("{}", e)));
                return;
            }
        };
        if yv.len() != y0.len() {
            ctx.violation("volume-changed-length", d(J::obj().set("len0", y0.len()).set("lenv", yv.len())));
            return;
        }
        let g = 10f64.powf(v / 20.0);
        let mut worst = 0.0f64;
        let mut at = 0;
        let mut finite = 0usize;
        for (i, (a, b)) in y0.iter().zip(&yv).enumerate() {
            let want = g * a;
            if !want.is_finite() || !a.is_finite() {
                continue; // outside the stable range (see C01); nothing to compare
            }
            finite += 1;
            let e = (b - want).abs() / want.abs().max(f64::MIN_POSITIVE);
            if want == 0.0 {
                if *b != 0.0 {
                    worst = f64::INFINITY;
                    at = i;
                }
                continue;
            }
            if e > worst || e.is_nan() {
                worst = e;
                at = i;
            }
        }
        ctx.max("worst_relative_gain_error_in_eps", worst / f64::EPSILON);
        if !(worst <= 32.0 * f64::EPSILON) {
            ctx.violation(
                "not-a-pure-gain",
                d(J::obj().set("sample", at).set("at_0db", y0[at]).set("at_v", yv[at]).set("expected", g * y0[at]).set("relative_error", worst)),
            );
        }
        // the same law however the waveform is pulled out of the generator: frame by frame, or
        // some frames first and the rest in one go
        if v != 0.0 {
            let fp = ev.condition.get_fperiod();
            let drain = (idx / 18) % 3;
            let pulled: Option<Vec<f64>> = match ev.generator(labels.clone()) {
                Err(_) => None,
                Ok(mut g) => {
                    let mut out: Vec<f64> = Vec::with_capacity(y0.len());
                    let steps = match drain {
                        0 => 0,
                        1 => usize::MAX,
                        _ => rng.range(1, 9),
                    };
                    let mut k = 0;
                    // the same steps on a generator at 0 dB: whatever a step leaves in the part of the
                    // caller's buffer behind the frame (live samples of a ring buffer, say) must not
                    // depend on the volume ("changes nothing else")
                    let mut g0 = base.generator(labels.clone()).ok();
                    while k < steps {
                        let extra = if k % 2 == 1 { 3 } else { 0 };
                        let mut buf = vec![0.0; fp + extra];
                        for (j, x) in buf[fp..].iter_mut().enumerate() {
                            *x = 0.375 + (k + j) as f64;
                        }
                        let mut buf0 = buf.clone();
                        let r = g.generate_step(&mut buf);
                        if let Some(g0) = g0.as_mut() {
                            let r0 = g0.generate_step(&mut buf0);
                            if r0 == r && extra > 0 {
                                ctx.count("steps_with_live_samples_behind_the_frame", 1.0);
                                if !buf[fp..].iter().zip(&buf0[fp..]).all(|(a, b)| a.to_bits() == b.to_bits()) {
                                    ctx.violation(
                                        "volume-changes-the-callers-buffer-behind-the-frame",
                                        d(J::obj().set("step", k).set("at_0db", J::Arr(buf0[fp..].iter().map(|x| J::from(*x)).collect())).set("at_v", J::Arr(buf[fp..].iter().map(|x| J::from(*x)).collect()))),
                                    );
                                    return;
                                }
                            }
                        }
                        if r == 0 {
                            break;
                        }
                        out.extend_from_slice(&buf[..r]);
                        k += 1;
                    }
                    if steps != usize::MAX {
                        out.extend(g.generate_all());
                    }
                    Some(out)
                }
            };
            match pulled {
                Some(out) if out.len() == y0.len() => {
                    let mut worst = 0.0f64;
                    let mut at = 0;
                    for (i, (a, b)) in y0.iter().zip(&out).enumerate() {
                        let want = g * a;
                        if !want.is_finite() || !a.is_finite() {
                            continue;
                        }
                        let e = if want == 0.0 {
                            if *b != 0.0 { f64::INFINITY } else { 0.0 }
                        } else {
                            (b - want).abs() / want.abs().max(f64::MIN_POSITIVE)
                        };
                        if e > worst || e.is_nan() {
                            worst = e;
                            at = i;
                        }
                    }
                    ctx.count(&format!("pulled_from_the_generator_{}", ["all_at_once", "frame_by_frame", "some_frames_then_the_rest"][drain]), 1.0);
                    if !(worst <= 32.0 * f64::EPSILON) {
                        ctx.violation(
                            "not-a-pure-gain:when-pulled-from-the-generator",
                            d(J::obj()
                                .set("how", ["generate_all", "generate_step until 0", "a few generate_step, then generate_all"][drain])
                                .set("sample", at)
                                .set("frame", at / fp)
                                .set("at_0db", y0[at])
                                .set("at_v", out[at])
                                .set("expected", g * y0[at])
                                .set("relative_error", worst)),
                        );
                    }
                }
                Some(out) => ctx.violation("volume-changed-length", d(J::obj().set("len0", y0.len()).set("len_pulled", out.len()))),
                None => ctx.violation("synthesize-err", J::from("generator()")),
            }
        }
        ctx.count("samples_compared", finite as f64);
        if v != 0.0 && finite > 0 && y0.iter().any(|x| *x != 0.0) {
            ctx.nontrivial(mix(&[hash_str(&descr), (v * 1000.0) as i64 as u64, y0.len() as u64]));
        }
        if ctx.want_sample() {
            ctx.sample(d(J::obj().set("samples", y0.len()).set("worst_relative_error", worst)));
        }
    });
}
