//! C06 — the mel-cepstral (MLSA) synthesis filter realises the model spectrum.

use crate::ctx::Ctx;
use crate::json::{fvec, J};
use crate::pulse::steady_state;
use crate::refimpl::mcep_logspec;
use crate::rng::{mix, Rng};
use jbonsai::vocoder::Vocoder;

pub const RATES: [usize; 6] = [8000, 16000, 22050, 44100, 48000, 96000];

/// the common rates, and in one case of seven any rate of the quantifier's range 8k..96k
/// (a multiple of 20: the pulse-response measurement needs an integer period at F0 = 20 Hz)
pub fn rate_pick(rng: &mut Rng, idx: usize) -> usize {
    if idx % 7 == 6 {
        20 * rng.range(400, 4800)
    } else {
        RATES[idx % RATES.len()]
    }
}

/// max over a 512-point grid of |sum_{m>=1} c_m cos(m warp(w))|
pub fn shape_of(c: &[f64], alpha: f64) -> f64 {
    let mut z = c.to_vec();
    z[0] = 0.0;
    (0..512)
        .map(|k| mcep_logspec(&z, alpha, std::f64::consts::PI * k as f64 / 511.0).abs())
        .fold(0.0, f64::max)
}

/// random cepstrum of `n` coefficients with one of four decay profiles, scaled to a target shape
pub fn random_cepstrum(rng: &mut Rng, n: usize, alpha: f64, target_shape: f64) -> Vec<f64> {
    let profile = rng.below(4);
    let mut c: Vec<f64> = (0..n)
        .map(|m| {
            let g = rng.normal();
            match profile {
                0 => g / (1.0 + m as f64),
                1 => g * (0.8f64).powi(m as i32),
                2 => g / (1.0 + (m as f64).sqrt()),
                _ => {
                    if m % 3 == 1 {
                        g
                    } else {
                        0.1 * g
                    }
                }
            }
        })
        .collect();
    c[0] = rng.uniform(-2.0, 3.0);
    if n > 1 {
        let s = shape_of(&c, alpha);
        if s > 0.0 {
            for x in c.iter_mut().skip(1) {
                *x *= target_shape / s;
            }
        }
    }
    c
}

pub fn alpha_pick(rng: &mut Rng) -> f64 {
    match rng.below(6) {
        0 => 0.0,
        1 => *rng.pick(&[0.31, 0.42, 0.55]),
        // tiny but non-zero warping, and the top of the range
        2 => *rng.pick(&[1e-3, 5e-3, 9.9e-3, 1e-6, 0.6, 0.599]),
        _ => rng.uniform(0.0, 0.6),
    }
}

pub fn run(ctx: &mut Ctx) {
    let n = ctx.n(2560, 100000);
    ctx.run_cases("spectrum", n, false, |ctx, rng, idx| {
        let order = if idx % 8 == 0 {
            *rng.pick(&[2usize, 3, 40, 41])
        } else if idx % 16 == 3 {
            rng.range(30, 41)
        } else {
            rng.range(2, 41)
        };
        let alpha = alpha_pick(rng);
        let rate = rate_pick(rng, idx);
        let target = if rng.chance(0.2) { 2.0 } else { rng.uniform(0.05, 2.0) };
        let mut c = random_cepstrum(rng, order, alpha, target);
        // the gain term is unconstrained by the property: very small and very large gains too
        if idx % 3 == 0 {
            c[0] = match rng.below(4) {
                0 => rng.uniform(-20.0, -10.0),
                1 => rng.uniform(6.0, 12.0),
                _ => rng.uniform(-10.0, 6.0),
            };
        }
        // corners of the gain term: c0 exactly 0, and c0 such that the filter's own gain
        // coefficient b0 = c0 - alpha * b1 is exactly 0 (b from the recursion b_m = c_m - alpha b_{m+1})
        let (alpha, c) = {
            let mut alpha = alpha;
            match idx % 32 {
                5 => {
                    alpha = 0.0;
                    c[0] = 0.0;
                }
                13 => c[0] = 0.0,
                21 => {
                    let mut b = c.clone();
                    for m in (0..order - 1).rev() {
                        b[m] = c[m] - alpha * b[m + 1];
                    }
                    c[0] = alpha * b[1];
                }
                _ => {}
            }
            (alpha, c)
        };
        // one coefficient exactly zero (the first-order term in particular) with warping on
        let c = {
            let mut c = c;
            if idx % 16 == 9 && order >= 3 {
                let k = *rng.pick(&[1usize, 1, 2, order - 1]);
                c[k] = 0.0;
            }
            c
        };
        // a long tail of tiny terms of one sign (each far below audibility, together several
        // hundredths of a neper), alone or under one dominant first-order term
        let c = {
            let mut c = c;
            if idx % 16 == 3 {
                let sign = if rng.chance(0.5) { 1.0 } else { -1.0 };
                let tiny = *rng.pick(&[0.0009, 0.0017, 0.0004, 0.00095]);
                for x in c.iter_mut().skip(1) {
                    *x = sign * tiny * rng.uniform(0.9, 1.0);
                }
                if rng.chance(0.5) {
                    c[1] = rng.uniform(0.5, 1.9) * if rng.chance(0.5) { 1.0 } else { -1.0 };
                }
            }
            c
        };
        // another vocoder renders a *moving* spectrum on this thread first: a fresh vocoder's
        // response must not depend on what other objects did before
        if idx % 2 == 1 {
            let mut other = Vocoder::new(order, 0, 0, false, rate, alpha, 0.0, 1.0, 40);
            let mut scratch = vec![0.0; 40];
            let moved: Vec<f64> = c.iter().enumerate().map(|(m, x)| x + 0.3 / (1.0 + m as f64)).collect();
            other.synthesize(crate::pulse::LN20, &c, &[], &mut scratch);
            other.synthesize(crate::pulse::LN20, &moved, &[], &mut scratch);
        }
        let shape = shape_of(&c, alpha);
        let p = rate / 20;
        let voc = Vocoder::new(order, 0, 0, false, rate, alpha, 0.0, 1.0, p);
        let st = steady_state(voc.clone(), &c, p, 48, 1e-11);
        let descr = || {
            J::obj()
                .set("order", order)
                .set("alpha", alpha)
                .set("rate", rate)
                .set("shape_nepers", shape)
                .set("cepstrum", fvec(&c, 48))
        };
        if !st.finite {
            ctx.violation("non-finite-response", descr().set("frames", st.frames_used));
            return;
        }
        if !st.converged {
            // the response to the first pulse had died away within one period, yet the periodic
            // output never repeats: the pulses are not rate/20 samples apart (or the filter
            // wanders) — nothing a stationary input can do
            if st.first_decayed && !st.growing() && st.never_repeats() {
                ctx.violation("response-does-not-settle", descr().set("frames", st.frames_used));
                return;
            }
            ctx.count("not_converged_skipped", 1.0);
            return;
        }
        ctx.count("responses_measured", 1.0);
        ctx.max("frames_to_steady_state", st.frames_used as f64);
        let hs = st.harmonics(if idx % 2 == 0 { 257 } else { 65 });
        let mut worst = 0.0f64;
        let mut worst_w = 0.0;
        for j in &hs {
            let w = st.omega(*j);
            let got = st.log_mag(*j);
            let want = mcep_logspec(&c, alpha, w);
            let e = (got - want).abs();
            if e > worst || e.is_nan() {
                worst = e;
                worst_w = w;
            }
        }
        ctx.count("frequencies_compared", hs.len() as f64);
        ctx.max("worst_error_nepers", worst);
        if !(worst <= 0.01) {
            ctx.violation(
                "spectrum-mismatch",
                descr().set("worst_error_nepers", worst).set("at_omega", worst_w).set("frames", st.frames_used),
            );
        }
        // the response to the very first pulse (first frame) must realise the same spectrum
        if st.first_decayed {
            let mut worst1 = 0.0f64;
            for j in &hs {
                let w = st.omega(*j);
                let e = (st.first_log_mag(w) - mcep_logspec(&c, alpha, w)).abs();
                if e > worst1 || e.is_nan() {
                    worst1 = e;
                }
            }
            ctx.count("first_frame_responses_measured", 1.0);
            ctx.max("worst_first_frame_error_nepers", worst1);
            if !(worst1 <= 0.01) {
                ctx.violation("first-frame-spectrum-mismatch", descr().set("worst_error_nepers", worst1));
            }
        }
        // c0 law: the response scales with exp(c0)
        let dc = if rng.chance(0.3) { rng.uniform(-12.0, 8.0) } else { rng.uniform(-1.5, 1.5) };
        let mut c2 = c.clone();
        c2[0] += dc;
        let st2 = steady_state(voc, &c2, p, st.frames_used, 0.0);
        if st2.finite && st2.period.len() == st.period.len() {
            let g = dc.exp();
            let err = st
                .period
                .iter()
                .zip(&st2.period)
                .fold(0.0f64, |m, (a, b)| m.max((b - g * a).abs()));
            let rel = err / (g * st.peak).max(1e-300);
            ctx.max("c0_law_worst_rel_error", rel);
            if !(rel <= 1e-9) {
                ctx.violation("gain-law", descr().set("delta_c0", dc).set("rel_error", rel));
            }
        }
        if shape >= 0.5 && order >= 3 {
            ctx.nontrivial(mix(&[order as u64, (alpha * 10.0) as u64, rate as u64]));
        }
        if ctx.want_sample() {
            ctx.sample(descr().set("worst_error_nepers", worst).set("frames", st.frames_used).set("harmonics", hs.len()));
        }
    });
}
