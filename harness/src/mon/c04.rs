//! C04 — a loaded voice is exactly what the file says.

use crate::ctx::Ctx;
use crate::env::Env;
use crate::json::J;
use crate::rng::{hash_str, mix, Rng};
use crate::voicegen::{self, VoiceOpts};
use crate::voiceread::{read_voice, split_pdf, RefModel, RefVoice};
use jbonsai::model::voice::model::Model;
use jbonsai::model::{load_htsvoice_file, Voice};
use jbonsai::Engine;
use jlabel::Label;
use std::path::Path;

fn feq(a: f64, b: f64) -> bool {
    a.to_bits() == b.to_bits()
}

/// compare one model (trees + pdfs) for one label at one state
#[allow(clippy::too_many_arguments)]
fn check_model(
    ctx: &mut Ctx,
    what: &str,
    voice_tag: u64,
    model: &Model,
    rm: &RefModel,
    state: usize,
    is_msd: bool,
    label: &Label,
    text: &str,
) -> bool {
    let Some(pos) = rm.tree_pos_for_state(state) else {
        ctx.inconclusive(&format!("{}: reference has no tree for state {}", what, state));
        return false;
    };
    let tr = match rm.lookup(pos, text) {
        Ok(t) => t,
        Err(e) => {
            ctx.inconclusive(&format!("{}: reference walk failed: {}", what, e));
            return false;
        }
    };
    let Some(raw) = rm.pdf(pos, tr.pdf_id) else {
        ctx.inconclusive(&format!("{}: reference pdf id {} out of range", what, tr.pdf_id));
        return false;
    };
    let detail = |extra: J| J::obj().set("model", what).set("state", state).set("label", text).set("expected_pdf_id", tr.pdf_id).set("observed", extra);
    let (ti, pi) = model.get_index(state, label);
    if ti != Some(pos + 2) || pi != Some(tr.pdf_id) {
        ctx.violation(
            "tree-selects-different-pdf",
            detail(J::obj().set("tree_index", ti.map(|x| x as i64)).set("pdf_index", pi.map(|x| x as i64)).set("expected_tree_index", pos + 2)),
        );
        return false;
    }
    let p = model.get_parameter(state, label);
    let (mean, vari, msd) = split_pdf(raw, is_msd);
    if p.parameters.len() != mean.len() {
        ctx.violation("gaussian-dimension", detail(J::obj().set("got", p.parameters.len()).set("expected", mean.len())));
        return false;
    }
    for (i, mv) in p.parameters.iter().enumerate() {
        if !feq(mv.0, mean[i]) || !feq(mv.1, vari[i]) {
            ctx.violation(
                "gaussian-not-bit-equal",
                detail(J::obj().set("component", i).set("got_mean", mv.0).set("expected_mean", mean[i]).set("got_variance", mv.1).set("expected_variance", vari[i])),
            );
            return false;
        }
    }
    match (p.msd, msd) {
        (None, None) => {}
        (Some(a), Some(b)) if feq(a, b) => {}
        (a, b) => {
            ctx.violation("voicing-weight", detail(J::obj().set("got", a).set("expected", b)));
            return false;
        }
    }
    ctx.count("gaussians_compared", 1.0);
    if tr.internal_nodes >= 2 && tr.yes_count >= 1 {
        ctx.nontrivial(mix(&[voice_tag, hash_str(what), pos as u64, tr.pdf_id as u64]));
    }
    true
}

fn check_labels(ctx: &mut Ctx, voice: &Voice, rv: &RefVoice, voice_tag: u64, labels: &[Label]) {
    let n = rv.num_states;
    'outer: for label in labels {
        let text = label.to_string();
        if !check_model(ctx, "duration", voice_tag, &voice.duration_model, &rv.duration, 2, false, label, &text) {
            break;
        }
        for (si, rs) in rv.streams.iter().enumerate() {
            let Some(sm) = voice.stream_models.get(si) else { break 'outer };
            for state in 2..2 + n {
                if !check_model(ctx, &format!("stream[{}]", rs.name), voice_tag, &sm.stream_model, &rs.model, state, rs.is_msd, label, &text) {
                    break 'outer;
                }
            }
            match (&sm.gv_model, &rs.gv) {
                (Some(g), Some(rg)) => {
                    if !check_model(ctx, &format!("gv[{}]", rs.name), voice_tag, g, rg, 2, false, label, &text) {
                        break 'outer;
                    }
                }
                (None, None) => {}
                _ => {
                    ctx.violation("gv-model-presence", J::obj().set("stream", rs.name.clone()));
                    break 'outer;
                }
            }
        }
        ctx.count("labels_checked", 1.0);
    }
}

fn debug_field(dbg: &str, name: &str) -> Option<String> {
    let i = dbg.find(&format!("{}: ", name))?;
    let rest = &dbg[i + name.len() + 2..];
    let end = rest.find([',', ' ', '}']).unwrap_or(rest.len());
    Some(rest[..end].to_string())
}

/// metadata, options, windows and engine defaults
fn check_header(ctx: &mut Ctx, voice: &Voice, rv: &RefVoice, path: &Path) {
    let m = &voice.metadata;
    let g = |k: &str| rv.global.get(k).cloned().unwrap_or_default();
    let mut bad: Vec<String> = Vec::new();
    if m.sampling_frequency != rv.sampling_frequency {
        bad.push("sampling_frequency".into());
    }
    if m.frame_period != rv.frame_period {
        bad.push("frame_period".into());
    }
    if m.num_states != rv.num_states {
        bad.push("num_states".into());
    }
    if m.num_streams != rv.num_streams {
        bad.push("num_streams".into());
    }
    if m.stream_type != rv.stream_types {
        bad.push("stream_type".into());
    }
    if m.hts_voice_version != g("HTS_VOICE_VERSION") {
        bad.push("hts_voice_version".into());
    }
    if m.fullcontext_format != g("FULLCONTEXT_FORMAT") {
        bad.push("fullcontext_format".into());
    }
    if m.fullcontext_version != g("FULLCONTEXT_VERSION") {
        bad.push("fullcontext_version".into());
    }
    if voice.stream_models.len() != rv.streams.len() {
        bad.push("stream count".into());
    }
    for (sm, rs) in voice.stream_models.iter().zip(&rv.streams) {
        let md = &sm.metadata;
        if md.vector_length != rs.vector_length {
            bad.push(format!("vector_length[{}]", rs.name));
        }
        if md.num_windows != rs.num_windows {
            bad.push(format!("num_windows[{}]", rs.name));
        }
        if md.is_msd != rs.is_msd {
            bad.push(format!("is_msd[{}]", rs.name));
        }
        if md.use_gv != rs.use_gv {
            bad.push(format!("use_gv[{}]", rs.name));
        }
        if md.option != rs.options {
            bad.push(format!("option[{}]", rs.name));
        }
        // windows: coefficients in file order
        let got: Vec<Vec<f64>> = sm
            .windows
            .iter()
            .map(|w| {
                let mut v: Vec<(usize, f64)> = w.iter_rev(0).map(|(i, c)| (i.index(), c)).collect();
                v.sort_by_key(|x| x.0);
                v.into_iter().map(|x| x.1).collect()
            })
            .collect();
        let same = got.len() == rs.windows.len()
            && got.iter().zip(&rs.windows).all(|(a, b)| a.len() == b.len() && a.iter().zip(b).all(|(x, y)| feq(*x, *y)));
        if !same {
            bad.push(format!("windows[{}]", rs.name));
        }
        ctx.count("windows_compared", rs.windows.len() as f64);
    }
    // GV-off context: behavioural comparison on a few probe labels is done by C12; here the patterns
    // are compared through the public question's verdict on silence / non-silence text
    if !bad.is_empty() {
        ctx.violation("header-field", J::obj().set("fields", J::from(bad)));
    }
    check_engine_defaults(ctx, rv, path);
}

/// The synthesis settings a fresh engine takes from the header (rate, frame period, ALPHA,
/// GAMMA stage, LN_GAIN) equal the file's, and they are the values synthesis really uses.
/// (Also the end-to-end leg of C13: stage selection from the GAMMA option.)
pub fn check_engine_defaults(ctx: &mut Ctx, rv: &RefVoice, path: &Path) {
    match Engine::load(&[path]) {
        Ok(e) => {
            let c = &e.condition;
            let mut bad: Vec<String> = Vec::new();
            if c.get_sampling_frequency() != rv.sampling_frequency {
                bad.push("sampling rate".into());
            }
            if c.get_fperiod() != rv.frame_period {
                bad.push("frame period".into());
            }
            let opt = |k: &str| rv.streams[0].options.iter().find_map(|o| o.strip_prefix(&format!("{}=", k)).map(|s| s.to_string()));
            let alpha: f64 = opt("ALPHA").and_then(|s| s.parse().ok()).unwrap_or(0.0);
            if !feq(c.get_alpha(), alpha) {
                bad.push(format!("alpha {} != {}", c.get_alpha(), alpha));
            }
            let stage: usize = opt("GAMMA").and_then(|s| s.parse().ok()).unwrap_or(0);
            let ln_gain = opt("LN_GAIN").map(|s| s == "1").unwrap_or(false);
            let dbg = format!("{:?}", c);
            match (debug_field(&dbg, "stage"), debug_field(&dbg, "use_log_gain")) {
                (Some(s), Some(l)) => {
                    if s != stage.to_string() {
                        bad.push(format!("gamma stage {} != {}", s, stage));
                    }
                    if l != ln_gain.to_string() {
                        bad.push(format!("log-gain flag {} != {}", l, ln_gain));
                    }
                    ctx.count("engine_defaults_checked", 1.0);
                }
                _ => ctx.inconclusive("Condition's Debug output no longer exposes stage / use_log_gain"),
            }
            if !bad.is_empty() {
                ctx.violation("engine-default", J::obj().set("fields", J::from(bad)));
            }
            // the defaults must also be the values synthesis really uses: the waveform of the fresh
            // engine equals the hooked trajectories rendered with the *header's* settings
            let label: jlabel::Label = "xx^xx-sil+b=o/A:xx+xx+xx/B:xx-xx_xx/C:xx_xx+xx/D:xx+xx_xx/E:xx_xx!xx_xx-xx/F:xx_xx#xx_xx@xx_xx|xx_xx/G:4_4%0_xx_xx/H:xx_xx/I:xx-xx@xx+xx&xx-xx|xx+xx/J:1_4/K:1+1-4".parse().unwrap();
            let label2: jlabel::Label = "sil^b-o+N=s/A:-3+1+4/B:xx-xx_xx/C:02_xx+xx/D:xx+xx_xx/E:xx_xx!xx_xx-xx/F:4_4#0_xx@1_1|1_4/G:xx_xx%xx_xx_xx/H:xx_xx/I:1-4@1+1&1-1|1+4/J:xx_xx/K:1+1-4".parse().unwrap();
            // (a voice whose log-F0 vectors have more than one component loads, but the engine
            // only synthesizes scalar log-F0: nothing to render then)
            let renderable = rv.streams.get(1).map(|s| s.vector_length == 1).unwrap_or(false);
            if !renderable {
                ctx.count("loaded_but_not_renderable_voices", 1.0);
            } else if let Ok(run) = crate::synth::run_with_hooks(&e, vec![label, label2]) {
                let hp = crate::synth::VocoderParams {
                    nmcp: rv.streams[0].vector_length,
                    nlpf: if rv.streams.len() > 2 { rv.streams[2].vector_length } else { 0 },
                    stage,
                    log_gain: ln_gain,
                    rate: rv.sampling_frequency,
                    alpha,
                    beta: 0.0,
                    volume: 1.0,
                    fperiod: rv.frame_period,
                };
                let again = crate::synth::rerender(&hp, &run);
                ctx.count("effective_defaults_rendered", 1.0);
                let finite = run.wave.iter().all(|x| x.is_finite());
                ctx.count(if finite { "effective_defaults_compared" } else { "effective_defaults_non_finite_skipped" }, 1.0);
                if finite && !crate::synth::bits_equal(&again, &run.wave) {
                    ctx.violation(
                        "synthesis-does-not-use-the-header-defaults",
                        J::obj().set("header_settings", format!("{:?}", hp)).set("len", run.wave.len()).set("len_rendered_with_header_settings", again.len()),
                    );
                }
            }
        }
        Err(e) => ctx.violation("engine-load-err", J::from(format!("{}", e))),
    }
}

fn labels_for(env: &Env, rng: &mut Rng, n: usize) -> Vec<Label> {
    (0..n)
        .map(|i| if i % 2 == 0 { rng.pick(&env.corpus.labels).clone() } else { env.corpus.recombine(rng) })
        .collect()
}

/// The Gaussians *handed to synthesis*: the hooked trajectories of an engine without GV must be
/// the maximum-likelihood generation from the file's float32 entries (read by the independent
/// reader), for every stream and also for states that only become voiced at a low threshold.
fn handed_to_synthesis(ctx: &mut Ctx, env: &Env, rng: &mut Rng, base: &Engine, rv: &RefVoice, descr: &str) {
    use crate::synth::{ref_label, trajectories, trajectory_deviation};
    use jbonsai::mlpg_adjust::MlpgAdjust;
    use jbonsai::model::voice::window::{Window, Windows};
    use jbonsai::model::{MeanVari, ModelStream, StreamParameter};
    if rv.streams.iter().any(|s| s.use_gv) {
        return;
    }
    let labels: Vec<Label> = env.corpus.random_utterance(rng, 2, 6);
    let mut e = base.clone();
    let thr1 = *rng.pick(&[0.0, 0.04, 0.3, 0.5]);
    e.condition.set_msd_threshold(1, thr1);
    let Ok(run) = trajectories(&e, labels.clone()) else {
        ctx.violation("synthesize-err", J::from(descr));
        return;
    };
    let mut per_label = Vec::new();
    for l in &labels {
        match ref_label(rv, &l.to_string()) {
            Ok(r) => per_label.push(r),
            Err(er) => {
                ctx.inconclusive(&format!("reference: {}", er));
                return;
            }
        }
    }
    let got = [&run.spectrum, &run.lf0, &run.lpf];
    // the per-state Gaussians as the engine's own model view hands them to parameter generation
    // (one voice, weight 1): bit-equal to the file's float32 entries, the sign of zero included
    let models = jbonsai::model::Models::new(&labels, &e.voices, e.condition.get_interporation_weight());
    for (si, rs) in rv.streams.iter().enumerate() {
        let ms = models.model_stream(si);
        let want: Vec<&crate::synth::Gauss> = per_label.iter().flat_map(|rl| rl.streams[si].iter()).collect();
        if ms.stream.len() != want.len() {
            ctx.violation("parameters-handed-to-synthesis-are-not-the-files-entries", J::obj().set("voice", descr).set("stream", rs.name.clone()).set("states", ms.stream.len()).set("expected_states", want.len()));
            return;
        }
        for (k, ((pars, msd), g)) in ms.stream.iter().zip(&want).enumerate() {
            let same = pars.len() == g.mean.len()
                && pars.iter().zip(g.mean.iter().zip(&g.vari)).all(|(p, (m, v))| p.0.to_bits() == m.to_bits() && p.1.to_bits() == v.to_bits())
                && msd.to_bits() == g.msd.unwrap_or(f64::MAX).to_bits();
            ctx.count("state_gaussians_on_the_synthesis_path_compared", 1.0);
            if !same {
                let at = pars.iter().zip(g.mean.iter().zip(&g.vari)).position(|(p, (m, v))| p.0.to_bits() != m.to_bits() || p.1.to_bits() != v.to_bits());
                ctx.violation(
                    "parameters-handed-to-synthesis-are-not-the-files-entries",
                    J::obj()
                        .set("voice", descr)
                        .set("stream", rs.name.clone())
                        .set("state_in_utterance", k)
                        .set("component", at.map(|x| x as f64).unwrap_or(-1.0))
                        .set("got", at.map(|x| format!("{:?}", pars[x])).unwrap_or_else(|| format!("voicing weight {:?}", msd)))
                        .set("file", at.map(|x| format!("({:?}, {:?})", g.mean[x], g.vari[x])).unwrap_or_else(|| format!("{:?}", g.msd))),
                );
                return;
            }
        }
    }
    for (si, rs) in rv.streams.iter().enumerate() {
        let stream: Vec<(Vec<MeanVari>, f64)> = per_label
            .iter()
            .flat_map(|rl| rl.streams[si].iter().map(|g| (g.mean.iter().zip(&g.vari).map(|(m, v)| MeanVari(*m, *v)).collect::<Vec<_>>(), g.msd.unwrap_or(f64::MAX))))
            .collect();
        let windows = Windows::new(rs.windows.iter().map(|w| Window::new(w.clone())).collect());
        let ms = ModelStream { vector_length: rs.vector_length, stream: StreamParameter::new(stream), gv: None, windows: &windows };
        let want = MlpgAdjust::new(1.0, e.condition.get_msd_threshold(si), ms).create(&run.durations);
        let dev = trajectory_deviation(got[si], &want);
        ctx.max("handed_to_synthesis_worst_deviation", if dev.is_finite() { dev } else { 1e300 });
        if !(dev <= 1e-9) {
            ctx.violation(
                "parameters-handed-to-synthesis-are-not-the-files-entries",
                J::obj().set("voice", descr).set("stream", rs.name.clone()).set("f0_threshold", thr1).set("deviation", dev).set("labels", J::Arr(labels.iter().take(3).map(|l| J::Str(l.to_string())).collect())),
            );
            return;
        }
    }
    ctx.count("utterances_generated_from_file_entries", 1.0);
}

pub fn run(ctx: &mut Ctx) {
    let env = Env::new(ctx);
    let bundled_voice = load_htsvoice_file(&env.bundled_path).expect("bundled voice loads");

    ctx.run_cases("bundled-header", 1, true, |ctx, _rng, _| {
        check_header(ctx, &bundled_voice, &env.bundled_ref, &env.bundled_path);
        ctx.count("voices", 1.0);
    });
    // every corpus line once (thorough) / a slice (quick), plus recombinations
    let chunks = ctx.n(91, 91);
    ctx.run_cases("bundled-corpus", chunks, true, |ctx, _rng, idx| {
        let per = 16;
        let lo = (idx * per).min(env.corpus.labels.len());
        let hi = ((idx + 1) * per).min(env.corpus.labels.len());
        check_labels(ctx, &bundled_voice, &env.bundled_ref, 1, &env.corpus.labels[lo..hi]);
    });
    let n = ctx.n(64, 2000);
    ctx.run_cases("bundled-recombined", n, false, |ctx, rng, _| {
        let labels: Vec<Label> = (0..16).map(|_| env.corpus.recombine(rng)).collect();
        check_labels(ctx, &bundled_voice, &env.bundled_ref, 1, &labels);
        if ctx.want_sample() {
            ctx.sample(J::obj().set("voice", "bundled").set("labels", J::Arr(labels.iter().take(2).map(|l| J::Str(l.to_string())).collect())));
        }
    });

    let n = ctx.n(32, 2000);
    ctx.run_cases("handed-to-synthesis", n, false, |ctx, rng, idx| {
        if idx % 4 == 0 {
            let mut bytes = env.bundled_bytes.clone();
            for key in ["USE_GV[MCP]:1", "USE_GV[LF0]:1"] {
                if let Some(pos) = bytes.windows(key.len()).position(|w| w == key.as_bytes()) {
                    bytes[pos + key.len() - 1] = b'0';
                }
            }
            let (Ok(rv), p) = (read_voice(&bytes), env.voice_file(&bytes)) else {
                ctx.inconclusive("reader on the GV-less copy of the bundled voice");
                return;
            };
            let e = Engine::load(&[&p]);
            env.remove(&p);
            match e {
                Ok(e) => {
                    for _ in 0..3 {
                        handed_to_synthesis(ctx, &env, rng, &e, &rv, "bundled without GV");
                    }
                }
                Err(er) => ctx.violation("engine-load-err", J::from(format!("{}", er))),
            }
        } else {
            let mut o = VoiceOpts::random(rng);
            o.gv_mcp = false;
            o.gv_lf0 = false;
            let spec = voicegen::generate(&o, &env.pool, rng);
            let bytes = voicegen::write(&spec);
            let Ok(rv) = read_voice(&bytes) else {
                ctx.inconclusive("reference reader on generated voice");
                return;
            };
            let p = env.voice_file(&bytes);
            let e = Engine::load(&[&p]);
            env.remove(&p);
            match e {
                Ok(e) => {
                    for _ in 0..3 {
                        handed_to_synthesis(ctx, &env, rng, &e, &rv, &format!("synthetic[{}]", o.describe()));
                    }
                }
                Err(er) => ctx.violation("generated-voice-does-not-load", J::obj().set("err", format!("{}", er)).set("opts", o.describe())),
            }
        }
        ctx.nontrivial(mix(&[91, idx as u64]));
    });
    // the file at one path is replaced by another voice of exactly the same length and loaded
    // again: what is loaded is what the file says *now* (both through load_htsvoice_file and
    // through Engine::load)
    let n = ctx.n(6, 60);
    ctx.run_cases("same-path-reload", n, false, |ctx, rng, idx| {
        let p = env.tmp_dir.join("reloaded.htsvoice");
        let first = if idx % 2 == 0 { env.bundled_bytes.clone() } else { voicegen::perturb(&env.bundled_bytes, rng, 0.2) };
        let second = voicegen::perturb(&env.bundled_bytes, rng, 0.3);
        if first.len() != second.len() {
            ctx.inconclusive("perturbed copy changed the file length");
            return;
        }
        let labels = labels_for(&env, rng, 24);
        for (round, bytes) in [&first, &second, &first].into_iter().enumerate() {
            std::fs::write(&p, bytes).expect("write voice file");
            let Ok(rv) = read_voice(bytes) else {
                ctx.inconclusive("reference reader on a perturbed copy");
                return;
            };
            let loaded = if (idx / 2 + round) % 2 == 0 { load_htsvoice_file(&p).map_err(|e| format!("{}", e)) } else { Engine::load(&[&p]).map(|e| (**e.voices.iter().next().unwrap()).clone()).map_err(|e| format!("{}", e)) };
            match loaded {
                Ok(v) => {
                    let before = ctx.rep.violations.len();
                    check_labels(ctx, &v, &rv, crate::rng::hash_bytes(bytes), &labels);
                    if ctx.rep.violations.len() > before {
                        ctx.violation("reloaded-path-gives-stale-voice", J::obj().set("round", round).set("what", "the file at the path was replaced by a voice of the same length before this load"));
                        return;
                    }
                }
                Err(e) => {
                    ctx.violation("perturbed-voice-does-not-load", J::from(e));
                    return;
                }
            }
        }
        ctx.count("same_path_reloads", 3.0);
        ctx.nontrivial(mix(&[0x5a, idx as u64]));
        env.remove(&p);
    });
    let n = ctx.n(160, 8000);
    ctx.run_cases("synthetic", n, false, |ctx, rng, idx| {
        let mut o = VoiceOpts::random(rng);
        if idx % 4 == 0 {
            o.regex_root = true;
            o.max_depth = o.max_depth.max(1);
        }
        if idx % 5 == 0 {
            o.max_depth = 0; // single-leaf trees only
        }
        if idx % 8 == 3 {
            // the header's ALPHA is taken as written, also outside the range the setter clamps to
            o.alpha = *rng.pick(&[-0.25, 1.25, 1.0, -1.0, 0.999]);
        }
        if idx % 4 == 2 {
            o.trees_reversed = true;
        }
        if idx % 16 == 7 {
            // an MSD stream whose vectors have more than one component
            o.lf0_vlen = *rng.pick(&[2usize, 3]);
            o.gv_lf0 = false;
        }
        let spec = voicegen::generate(&o, &env.pool, rng);
        let bytes = voicegen::write(&spec);
        let rv = match read_voice(&bytes) {
            Ok(r) => r,
            Err(e) => {
                ctx.inconclusive(&format!("reference reader on generated voice: {}", e));
                return;
            }
        };
        if let Err(e) = voicegen::cross_check(&spec, &rv) {
            ctx.inconclusive(&format!("generator ground truth and reference reader disagree: {}", e));
            return;
        }
        let p = env.voice_file(&bytes);
        match load_htsvoice_file(&p) {
            Ok(v) => {
                let tag = crate::rng::hash_bytes(&bytes);
                check_header(ctx, &v, &rv, &p);
                let labels = labels_for(&env, rng, if ctx.quick() { 40 } else { 200 });
                check_labels(ctx, &v, &rv, tag, &labels);
                ctx.count("voices", 1.0);
                if ctx.want_sample() {
                    ctx.sample(J::obj().set("voice", o.describe()).set("bytes", bytes.len()).set("labels", labels.len()));
                }
            }
            Err(e) => ctx.violation("generated-voice-does-not-load", J::obj().set("err", format!("{}", e)).set("opts", o.describe())),
        }
        env.remove(&p);
    });
}
