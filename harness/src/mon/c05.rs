//! C05 — generated trajectories are the maximum-likelihood solution (dense normal equations).

use crate::ctx::Ctx;
use crate::json::{fvec, J};
use crate::refimpl::dense_solve;
use crate::rng::{mix, Rng};
use crate::synth::NODATA;
use crate::voicegen::window_set;
use jbonsai::mlpg_adjust::MlpgAdjust;
use jbonsai::model::voice::window::{Window, Windows};
use jbonsai::model::{MeanVari, ModelStream, StreamParameter};

pub struct Island {
    pub start: usize,
    pub end: usize, // inclusive
}

pub fn islands(voiced: &[bool]) -> Vec<Island> {
    let mut v = Vec::new();
    let mut t = 0;
    while t < voiced.len() {
        if voiced[t] {
            let s = t;
            while t + 1 < voiced.len() && voiced[t + 1] {
                t += 1;
            }
            v.push(Island { start: s, end: t });
        }
        t += 1;
    }
    v
}

/// Dense normal equations of the definition for one island and one vector index.
/// `gauss(frame, window) -> (mean, variance)`. Returns (A, b, active dynamic rows).
pub fn normal_equations(
    isl: &Island,
    windows: &[Vec<f64>],
    gauss: &dyn Fn(usize, usize) -> (f64, f64),
) -> (Vec<Vec<f64>>, Vec<f64>, usize) {
    let n = isl.end - isl.start + 1;
    let mut a = vec![vec![0.0; n]; n];
    let mut b = vec![0.0; n];
    let mut active = 0;
    for (wi, w) in windows.iter().enumerate() {
        let left = w.len() / 2;
        let right = w.len() - left - 1;
        for t in isl.start..=isl.end {
            if wi != 0 && (t < isl.start + left || t + right > isl.end) {
                continue; // span touches an unvoiced frame or the utterance edge
            }
            let (mu, var) = gauss(t, wi);
            let prec = 1.0 / var;
            // row r: coefficient w[k] on frame t + k - left
            let mut row: Vec<(usize, f64)> = Vec::new();
            for (k, c) in w.iter().enumerate() {
                let f = t as isize + k as isize - left as isize;
                if f < isl.start as isize || f > isl.end as isize {
                    // only possible for window 0 wider than 1 (not generated)
                    continue;
                }
                if *c != 0.0 {
                    row.push((f as usize - isl.start, *c));
                }
            }
            if wi != 0 {
                active += 1;
            }
            for (i, ci) in &row {
                b[*i] += prec * mu * ci;
                for (j, cj) in &row {
                    a[*i][*j] += prec * ci * cj;
                }
            }
        }
    }
    (a, b, active)
}

fn pattern(rng: &mut Rng, nstates: usize, kind: usize) -> Vec<f64> {
    // voicing weights per state
    (0..nstates)
        .map(|i| match kind {
            0 => 0.9,
            1 => rng.f64(),
            2 => {
                if i % 3 == 0 {
                    0.1
                } else {
                    0.9
                }
            }
            3 => 0.1,
            4 => {
                // short islands at the edges
                if i == 0 || i + 1 == nstates || i == 2 || i + 3 == nstates {
                    0.9
                } else {
                    0.2
                }
            }
            _ => {
                if rng.chance(0.8) {
                    0.9
                } else {
                    0.1
                }
            }
        })
        .collect()
}

pub fn run(ctx: &mut Ctx) {
    let n = ctx.n(12000, 1000000);
    ctx.run_cases("streams", n, false, |ctx, rng, idx| {
        let nstates = if idx % 11 == 0 { rng.range(1, 3) } else { rng.range(1, 60) };
        let vlen = rng.range(1, 4);
        // (one case in eight with the static window zero-padded to width 3 or 5)
        let wset = idx % 10 + if (idx / 10) % 8 == 3 { 10 * (1 + (idx / 80) % 2) } else { 0 };
        let wins = window_set(wset);
        let nwin = wins.len();
        let kind = (idx / 10) % 6;
        let is_msd = kind != 0 || rng.chance(0.5);
        let mut weights = pattern(rng, nstates, kind);
        let thr = if rng.chance(0.2) { 0.5 } else { rng.uniform(0.3, 0.7) };
        if is_msd && idx % 9 == 4 {
            // voicing weights exactly at the threshold: "exceeds" is strict, such a state is unvoiced
            for (i, w) in weights.iter_mut().enumerate() {
                if i % 3 == idx % 3 {
                    *w = thr;
                }
            }
            ctx.count("cases_with_weights_exactly_at_the_threshold", 1.0);
        }
        let durations: Vec<usize> = (0..nstates).map(|_| if idx % 7 == 0 { 1 } else { rng.range(1, 8) }).collect();
        // variance structure: independent per entry; or tied across the components of a window
        // (a shared floor) for the static window only, for every window, or everywhere
        let tie = (idx / 3) % 5;
        // voicing weights of "certainly voiced" states may be the non-MSD marker f64::MAX
        let max_marker = is_msd && idx % 4 == 1;
        let stream: Vec<(Vec<MeanVari>, f64)> = (0..nstates)
            .map(|i| {
                let shared: Vec<f64> = (0..nwin).map(|_| rng.uniform(0.05, 3.0)).collect();
                let everywhere = shared[0];
                let g: Vec<MeanVari> = (0..nwin * vlen)
                    .map(|j| {
                        let w = j / vlen;
                        let mean = if w == 0 { rng.uniform(-3.0, 3.0) } else { rng.uniform(-0.5, 0.5) };
                        let own = rng.uniform(0.05, 3.0);
                        let vari = match tie {
                            1 if w == 0 => shared[0],
                            2 => shared[w],
                            3 => everywhere,
                            _ => own,
                        };
                        MeanVari(mean, vari)
                    })
                    .collect();
                let weight = if !is_msd {
                    f64::MAX
                } else if max_marker && weights[i] > thr && (i == 0 || rng.chance(0.5)) {
                    f64::MAX
                } else {
                    weights[i]
                };
                (g, weight)
            })
            .collect();
        let windows = Windows::new(wins.iter().map(|w| Window::new(w.clone())).collect());
        let ms = ModelStream {
            vector_length: vlen,
            stream: StreamParameter::new(stream.clone()),
            gv: None,
            windows: &windows,
        };
        let adjust = MlpgAdjust::new(1.0, thr, ms);
        // every third case: the same object is asked twice, first with other durations; the
        // second answer is the one that is checked (nothing may be remembered from the first)
        let out = if idx % 3 == 2 {
            let other: Vec<usize> = (0..nstates).map(|_| rng.range(1, 8)).collect();
            let _ = adjust.create(&other);
            adjust.create(&durations)
        } else {
            adjust.create(&durations)
        };
        let total: usize = durations.iter().sum();
        let descr = |extra: J| {
            J::obj()
                .set("states", nstates)
                .set("vector_length", vlen)
                .set("window_set", wset)
                .set("pattern", kind)
                .set("threshold", thr)
                .set("durations", J::from(durations.clone()))
                .set("voicing_weights", fvec(&weights, 24))
                .set("observed", extra)
        };
        if out.len() != total || out.iter().any(|f| f.len() != vlen) {
            ctx.violation("trajectory-shape", descr(J::obj().set("frames", out.len()).set("expected", total)));
            return;
        }
        // frame -> state, voiced mask from the definition
        let mut state_of = Vec::with_capacity(total);
        for (s, d) in durations.iter().enumerate() {
            for _ in 0..*d {
                state_of.push(s);
            }
        }
        let voiced: Vec<bool> = state_of.iter().map(|s| stream[*s].1 > thr).collect();
        for t in 0..total {
            for v in 0..vlen {
                let is_nodata = out[t][v] == NODATA;
                if voiced[t] == is_nodata {
                    ctx.violation(
                        "no-data-marker",
                        descr(J::obj().set("frame", t).set("voiced_by_definition", voiced[t]).set("value", out[t][v])),
                    );
                    return;
                }
            }
        }
        let mut nontrivial = false;
        for isl in islands(&voiced) {
            let nfr = isl.end - isl.start + 1;
            for v in 0..vlen {
                let gauss = |t: usize, w: usize| {
                    let g = stream[state_of[t]].0[w * vlen + v];
                    (g.0, g.1)
                };
                let (a, b, active) = normal_equations(&isl, &wins, &gauss);
                let c: Vec<f64> = (isl.start..=isl.end).map(|t| out[t][v]).collect();
                // (i) residual of jbonsai's solution in the definition's equations
                let mut worst_res = 0.0f64;
                for i in 0..nfr {
                    let mut s = 0.0;
                    let mut scale = b[i].abs();
                    for j in 0..nfr {
                        s += a[i][j] * c[j];
                        scale += (a[i][j] * c[j]).abs();
                    }
                    let r = (s - b[i]).abs() / scale.max(1e-300);
                    worst_res = worst_res.max(r);
                    if r.is_nan() {
                        worst_res = f64::NAN;
                        break;
                    }
                }
                ctx.max("worst_relative_residual", worst_res);
                if !(worst_res <= 1e-10) {
                    ctx.violation(
                        "not-the-ml-solution",
                        descr(J::obj().set("island", J::Arr(vec![J::from(isl.start), J::from(isl.end)])).set("vector_index", v).set("relative_residual", worst_res).set("solution", fvec(&c, 16))),
                    );
                    return;
                }
                // (ii) agreement with the dense Gaussian-elimination solve
                match dense_solve(&a, &b) {
                    Some(x) => {
                        let cmax = x.iter().fold(0.0f64, |m, y| m.max(y.abs()));
                        let diff = x.iter().zip(&c).fold(0.0f64, |m, (p, q)| m.max((p - q).abs()));
                        ctx.max("worst_disagreement_with_dense_solve", diff / (1.0 + cmax));
                        if !(diff <= 1e-8 * (1.0 + cmax)) {
                            ctx.violation(
                                "differs-from-dense-solve",
                                descr(J::obj().set("island", J::Arr(vec![J::from(isl.start), J::from(isl.end)])).set("vector_index", v).set("max_abs_diff", diff)),
                            );
                            return;
                        }
                    }
                    None => ctx.count("dense_solver_singular_skipped", 1.0),
                }
                ctx.count("systems_checked", 1.0);
                if nfr == 1 {
                    ctx.count("single_frame_islands", 1.0);
                }
                if nfr >= 3 && active >= 1 {
                    nontrivial = true;
                }
            }
        }
        if nontrivial {
            let lens: Vec<usize> = islands(&voiced).iter().map(|i| (i.end - i.start + 1).min(16)).collect();
            ctx.nontrivial(mix(&[wset as u64, kind as u64, vlen as u64, crate::rng::hash_str(&format!("{:?}", lens))]));
        }
        if ctx.want_sample() {
            ctx.sample(descr(J::obj().set("frames", total).set("islands", islands(&voiced).len())));
        }
    });
}
