//! C17 — all label input forms agree; bad label text is an error, never a panic.

use crate::ctx::{guard, Ctx};
use crate::env::{Cond, Env};
use crate::json::J;
use crate::labels::to_strings;
use crate::mon::c01::load_synthetic;
use crate::rng::{hash_str, mix, Rng};
use crate::voicegen::VoiceOpts;
use jbonsai::Engine;
use jlabel::Label;

fn same(a: &[f64], b: &[f64]) -> bool {
    a.len() == b.len() && a.iter().zip(b).all(|(x, y)| x.to_bits() == y.to_bits())
}

fn array_form<const N: usize>(e: &Engine, v: &[String]) -> Option<Result<Vec<f64>, String>> {
    let arr: [String; N] = v.to_vec().try_into().ok()?;
    Some(e.synthesize(&arr).map_err(|e| format!("{}", e)))
}

fn forms(ctx: &mut Ctx, env: &Env, rng: &mut Rng, base: &Engine, descr: &str) {
    let mut e = base.clone();
    let mut cond = Cond::random(rng, e.voices.global_metadata().num_streams, false);
    cond.alignment = false;
    cond.apply(&mut e);
    let n = *rng.pick(&[1usize, 2, 3, 4, 5, 6, 8]);
    let mode = rng.below(4);
    let labels: Vec<Label> = env.corpus.utterance(rng, n, mode);
    let strings = to_strings(&labels);
    let d = |extra: J| J::obj().set("voice", descr).set("cond", cond.to_json()).set("labels", J::Arr(strings.iter().take(3).map(|s| J::Str(s.clone())).collect())).set("observed", extra);
    let reference = match e.synthesize(labels.clone()) {
        Ok(w) => w,
        Err(er) => {
            ctx.violation("parsed-labels-err", d(J::from(format!("{}", er))));
            return;
        }
    };
    // slice of &str
    let refs: Vec<&str> = strings.iter().map(|s| s.as_str()).collect();
    let mut outs: Vec<(&str, Result<Vec<f64>, String>)> = vec![
        ("&[&str]", e.synthesize(&refs[..]).map_err(|e| format!("{}", e))),
        ("&[String]", e.synthesize(&strings[..]).map_err(|e| format!("{}", e))),
        ("Vec<String>", e.synthesize(strings.clone()).map_err(|e| format!("{}", e))),
    ];
    let arr = match n {
        1 => array_form::<1>(&e, &strings),
        2 => array_form::<2>(&e, &strings),
        3 => array_form::<3>(&e, &strings),
        4 => array_form::<4>(&e, &strings),
        5 => array_form::<5>(&e, &strings),
        6 => array_form::<6>(&e, &strings),
        8 => array_form::<8>(&e, &strings),
        _ => None,
    };
    if let Some(a) = arr {
        outs.push(("&[String; N]", a));
    }
    // blank lines inserted at random places
    let mut blank = Vec::new();
    for s in &strings {
        while rng.chance(0.3) {
            blank.push(String::new());
        }
        blank.push(s.clone());
    }
    if rng.chance(0.5) {
        blank.push(String::new());
    }
    outs.push(("Vec<String> with blank lines", e.synthesize(blank).map_err(|e| format!("{}", e))));
    // time stamps (100 ns units) while alignment is off: no effect
    let mut t = 0u64;
    // (a label lasts at most 300 frames of the engine's frame period: with a frame period of one
    // sample at 96 kHz, 0.3 s would be 28 800 frames per label once alignment is switched on)
    let cap = (300.0 * e.condition.get_fperiod() as f64 * 1e7 / e.condition.get_sampling_frequency().max(1) as f64) as u64;
    let timed: Vec<String> = strings
        .iter()
        .map(|s| {
            let a = t;
            // (one line in ten gets an empty segment: start == end)
            t += if rng.chance(0.1) { 0 } else { (rng.range(0, 3_000_000) as u64).min(cap.max(1)) };
            if rng.chance(0.8) {
                format!("{} {} {}", a, t, s)
            } else {
                s.clone()
            }
        })
        .collect();
    outs.push(("time-stamped strings, alignment off", e.synthesize(timed.clone()).map_err(|e| format!("{}", e))));
    // both at once: blank lines (also in front) between time-stamped lines
    let mut both: Vec<String> = vec![String::new()];
    for t in &timed {
        both.push(t.clone());
        if rng.chance(0.3) {
            both.push(String::new());
        }
    }
    outs.push(("blank line first, then time-stamped strings", e.synthesize(both).map_err(|e| format!("{}", e))));
    let mut mixed: Vec<String> = Vec::new();
    for (i, t) in timed.iter().enumerate() {
        mixed.push(if i % 2 == 0 { strings[i].clone() } else { t.clone() });
    }
    outs.push(("stamped and plain lines alternating", e.synthesize(mixed).map_err(|e| format!("{}", e))));
    // odd but valid time spellings
    let weird: Vec<String> = strings.iter().map(|s| format!("{} {} {}", *rng.pick(&["0", "1e3", "2.5", "+7", "-1", "1e400", "inf", "NaN", "18446744073709551616", "0000000000000000000000012"]), *rng.pick(&["0", "1e5", "3.25e6", "-1", "1e400", "nan", "99999999999999999999999", "18446744073709551615", "340282366920938463463374607431768211456"]), s)).collect();
    outs.push(("float-spelled time stamps, alignment off", e.synthesize(weird).map_err(|e| format!("{}", e))));
    for (name, r) in outs {
        match r {
            Ok(w) => {
                ctx.count("forms_compared", 1.0);
                if !same(&w, &reference) {
                    ctx.violation("input-forms-disagree", d(J::obj().set("form", name).set("len", w.len()).set("reference_len", reference.len())));
                    return;
                }
            }
            Err(er) => {
                ctx.violation("wellformed-input-form-rejected", d(J::obj().set("form", name).set("err", er)));
                return;
            }
        }
    }
    // the same with alignment ON (no time stamps anywhere): every form still agrees, at any speed
    {
        let mut ea = e.clone();
        ea.condition.set_phoneme_alignment_flag(true);
        ea.condition.set_speed(*rng.pick(&[1.0, 0.8, 1.7]));
        if let Ok(refa) = ea.synthesize(labels.clone()) {
            let outs_a: Vec<(&str, Result<Vec<f64>, String>)> = vec![
                ("&[String], alignment on", ea.synthesize(&strings[..]).map_err(|e| format!("{}", e))),
                ("Vec<String>, alignment on", ea.synthesize(strings.clone()).map_err(|e| format!("{}", e))),
            ];
            // time stamps in force: blank lines anywhere between the stamped lines change nothing,
            // and neither does the speed (a stamp is 100 ns whatever the speaking rate)
            {
                let plain = ea.synthesize(timed.clone()).map_err(|e| format!("{}", e));
                {
                    let mut e1 = ea.clone();
                    e1.condition.set_speed(if ea.condition.get_speed() == 1.0 { 1.6 } else { 1.0 });
                    let other = e1.synthesize(timed.clone()).map_err(|e| format!("{}", e));
                    let agree = match (&plain, &other) {
                        (Ok(a), Ok(b)) => same(a, b),
                        (Err(_), Err(_)) => true,
                        _ => false,
                    };
                    ctx.count("aligned_stamped_forms_compared", 1.0);
                    if !agree {
                        ctx.violation("time-stamps-depend-on-speed", d(J::obj().set("speed_a", ea.condition.get_speed()).set("speed_b", e1.condition.get_speed()).set("len_a", plain.as_ref().map(|w| w.len() as f64).unwrap_or(-1.0)).set("len_b", other.as_ref().map(|w| w.len() as f64).unwrap_or(-1.0))));
                        return;
                    }
                }
                let mut with_blanks: Vec<String> = Vec::new();
                if rng.chance(0.5) {
                    with_blanks.push(String::new());
                }
                for (i, t) in timed.iter().enumerate() {
                    with_blanks.push(t.clone());
                    if i + 1 < timed.len() && rng.chance(0.4) {
                        with_blanks.push(String::new());
                    }
                }
                let blanks = ea.synthesize(with_blanks).map_err(|e| format!("{}", e));
                let trefs: Vec<&str> = timed.iter().map(|s| s.as_str()).collect();
                let as_refs = ea.synthesize(&trefs[..]).map_err(|e| format!("{}", e));
                ctx.count("aligned_stamped_forms_compared", 2.0);
                for (name, other) in [("time-stamped with blank lines, alignment on", &blanks), ("time-stamped &[&str], alignment on", &as_refs)] {
                    let agree = match (&plain, other) {
                        (Ok(a), Ok(b)) => same(a, b),
                        (Err(_), Err(_)) => true,
                        _ => false,
                    };
                    if !agree {
                        ctx.violation(
                            "input-forms-disagree",
                            d(J::obj().set("form", name).set("len", other.as_ref().map(|w| w.len() as f64).unwrap_or(-1.0)).set("reference_len", plain.as_ref().map(|w| w.len() as f64).unwrap_or(-1.0)).set("lines", J::Arr(timed.iter().take(4).map(|s| J::Str(s.chars().take(40).collect())).collect()))),
                        );
                        return;
                    }
                }
            }
            for (name, r) in outs_a {
                match r {
                    Ok(w) => {
                        ctx.count("forms_compared", 1.0);
                        if !same(&w, &refa) {
                            ctx.violation("input-forms-disagree", d(J::obj().set("form", name).set("len", w.len()).set("reference_len", refa.len()).set("speed", ea.condition.get_speed())));
                            return;
                        }
                    }
                    Err(er) => {
                        ctx.violation("wellformed-input-form-rejected", d(J::obj().set("form", name).set("err", er)));
                        return;
                    }
                }
            }
        }
    }
    ctx.nontrivial(mix(&[hash_str(descr), hash_str(&strings.join("|")), hash_str(&format!("{}", cond.to_json()))]));
    if ctx.want_sample() {
        ctx.sample(d(J::obj().set("samples", reference.len()).set("forms", 6)));
    }
}

fn corrupt(rng: &mut Rng, line: &str) -> (String, &'static str) {
    let bytes = line.as_bytes();
    match rng.below(22) {
        // the ideographic space (three bytes wide) where a separator is expected, or anywhere
        21 => {
            let s0 = rng.range(0, 9000000);
            let s = match rng.below(4) {
                0 => format!("{}\u{3000}{} {}", s0, s0 + rng.range(1, 9000000), line),
                1 => format!("{} {}\u{3000}{}", s0, s0 + rng.range(1, 9000000), line),
                2 => format!("\u{3000}{}", line),
                _ => {
                    let a = rng.below(bytes.len() + 1);
                    format!("{}\u{3000}{}", &line[..a], &line[a..])
                }
            };
            (s, "ideographic-space")
        }
        // what a file read carelessly leaves behind: a byte order mark in front of the entry,
        // a line terminator at its end (or in the middle: two lines in one entry)
        19 => {
            let stamped = format!("{} {} {}", rng.range(0, 1000), rng.range(1000, 90000), line);
            (format!("\u{feff}{}", if rng.chance(0.5) { line } else { &stamped }), "byte-order-mark")
        }
        20 => {
            let stamped = format!("{} {} {}", rng.range(0, 1000), rng.range(1000, 90000), line);
            let body = if rng.chance(0.4) { stamped.as_str() } else { line };
            let nl = *rng.pick(&["\n", "\r\n", "\n", "\r"]);
            let s = match rng.below(4) {
                0 | 1 => format!("{}{}", body, nl),
                2 => format!("{}{}", nl, body),
                _ => format!("{}{}{}", body, nl, line),
            };
            (s, "line-terminator-inside-the-entry")
        }
        17 => (format!("{}{}", line, *rng.pick(&[" ", "  ", "\t", " \r"])), "trailing-whitespace"),
        18 => (format!("{} {} {}{}", rng.range(0, 1000), rng.range(1000, 90000), line, *rng.pick(&[" ", "  "])), "stamped-trailing-whitespace"),
        0 => {
            // delete a token-ish chunk
            let a = rng.below(bytes.len());
            let b = (a + rng.range(1, 12)).min(bytes.len());
            (format!("{}{}", &line[..a], &line[b..]), "delete-chunk")
        }
        1 => {
            let a = rng.below(bytes.len());
            let b = (a + rng.range(1, 12)).min(bytes.len());
            (format!("{}{}{}", &line[..b], &line[a..b], &line[b..]), "duplicate-chunk")
        }
        2 => {
            let mut v = bytes.to_vec();
            for _ in 0..rng.range(1, 4) {
                let i = rng.below(v.len());
                v[i] = b"!#%&+-/:=@^_|xA0 \t\"*?"[rng.below(21)];
            }
            (String::from_utf8_lossy(&v).to_string(), "substitute-symbols")
        }
        3 => {
            let a = rng.below(bytes.len() + 1);
            (format!("{}{}{}", &line[..a], *rng.pick(&["あ", "é", "𝄞", "\u{0}", "\u{feff}", "ｘｘ"]), &line[a..]), "insert-unicode")
        }
        4 => (line[..rng.below(bytes.len())].to_string(), "truncate"),
        5 => (format!("  {}", line), "leading-spaces"),
        6 => (line.replacen('/', " /", 1), "extra-space-inside"),
        7 => (format!("{} {}", rng.range(0, 1000000), line), "one-time-only"),
        8 => (format!("{} {}", rng.range(0, 1000), rng.range(0, 100000)), "two-times-no-label"),
        9 => (format!("abc 100 {}", line), "unparsable-start"),
        10 => (format!("100 1x0 {}", line), "unparsable-end"),
        11 => (format!("0 100 {} trailing", line), "trailing-token"),
        12 => {
            let mut s = String::new();
            while s.len() < 10_000 {
                s.push_str(line);
            }
            (s, "10k-characters")
        }
        13 => {
            let n = rng.range(1, 30);
            let v: Vec<u8> = (0..n).map(|_| (rng.next_u64() % 95 + 32) as u8).collect();
            (String::from_utf8_lossy(&v).to_string(), "random-ascii")
        }
        _ => {
            // long multi-byte text in every error path (messages that quote or cut the input
            // must respect character boundaries): 0, 1 or 2 spaces, ASCII prefix of any length
            let uni: String = (0..rng.range(20, 60)).map(|_| *rng.pick(&['あ', 'é', '𝄞', 'ｘ', 'ß', '中'])).collect();
            let pre: String = (0..rng.range(0, 70)).map(|_| (b'0' + rng.below(10) as u8) as char).collect();
            match rng.below(5) {
                0 => (format!("{}{}", pre, uni), "unicode-no-space"),
                1 => (format!("{} {}{}", rng.range(0, 99999), pre, uni), "unicode-one-space"),
                2 => (format!("{}{} {}", pre, uni, uni), "unicode-one-space"),
                3 => (format!("{}{} {} {}", pre, uni, uni, line), "unicode-times"),
                _ => (format!("{} {} {}{}", rng.range(0, 999), rng.range(1000, 99999), pre, uni), "unicode-label"),
            }
        }
    }
}

pub fn run(ctx: &mut Ctx) {
    let env = Env::new(ctx);
    let bundled = env.load_bundled();
    let n = ctx.n(200, 5000);
    ctx.run_cases("forms", n, false, |ctx, rng, idx| {
        if idx % 3 == 0 {
            forms(ctx, &env, rng, &bundled, "bundled");
        } else {
            let o = VoiceOpts::random(rng);
            match load_synthetic(&env, &o, rng) {
                Ok((e, _)) => forms(ctx, &env, rng, &e, &format!("synthetic[{}]", o.describe())),
                Err(e) => ctx.inconclusive(&e),
            }
        }
    });

    // time stamps are in 100 ns units: with alignment ON, stamped strings must obey the
    // alignment law evaluated in exact arithmetic (frame periods that do not divide the rate)
    let n = ctx.n(40, 3000);
    ctx.run_cases("timestamp-units", n, false, |ctx, rng, _| {
        use crate::mon::c09::{check_law, Ann, Verdict};
        let mut e = bundled.clone();
        e.condition.set_phoneme_alignment_flag(true);
        let fperiod = *rng.pick(&[256usize, 250, 77, 240, 101, 333]);
        let rate = *rng.pick(&[48000usize, 44100, 22050, 16000]);
        e.condition.set_fperiod(fperiod);
        e.condition.set_sampling_frequency(rate);
        let nl = rng.range(2, 8);
        let labels = env.corpus.utterance(rng, nl, 1);
        let unit = fperiod as f64 * 1e7 / rate as f64;
        let mut t = 0u64;
        let mut ann = Vec::new();
        let lines: Vec<String> = labels
            .iter()
            .map(|l| {
                let s0 = t;
                // (one label in five shorter than its five states: it still takes one frame per
                // state, and the labels after it give the excess back)
                let frames = if rng.chance(0.2) { rng.range(0, 4) } else { rng.range(6, 40) };
                t += ((frames as f64 + *rng.pick(&[0.0, 0.25, 0.75])) * unit) as u64;
                ann.push(Ann { start: Some(s0), end: Some(t) });
                format!("{} {} {}", s0, t, l)
            })
            .collect();
        match crate::synth::trajectories(&e, lines.clone()) {
            Ok(run) => match check_law(&run.durations, &ann, 5, rate, fperiod, None) {
                Verdict::Bad(sig, j) => ctx.violation(&format!("time-stamps-not-in-100ns-units:{}", sig), J::obj().set("rate", rate).set("fperiod", fperiod).set("lines", J::from(lines.clone())).set("observed", j)),
                Verdict::Ok { .. } => {
                    ctx.count("stamped_utterances_checked", 1.0);
                    ctx.nontrivial(mix(&[31, rate as u64, fperiod as u64, hash_str(&lines.join("|"))]));
                }
            },
            Err(er) => ctx.violation("wellformed-input-form-rejected", J::from(format!("{}", er))),
        }
    });

    // corrupted lines: Err or Ok, never a panic. A tiny generated voice keeps the Ok cases cheap.
    let mut r0 = Rng::new(77);
    let mut small = VoiceOpts::tiny();
    small.fperiod = 8;
    let (tiny, _) = load_synthetic(&env, &small, &mut r0).expect("tiny voice");
    let n = ctx.n(10000, 300000);
    ctx.run_cases("corruptions", n, false, |ctx, rng, idx| {
        let base = rng.pick(&env.corpus.lines).clone();
        let (bad, kind) = corrupt(rng, &base);
        let mut lines = vec![rng.pick(&env.corpus.lines).clone()];
        let pos = rng.below(2);
        lines.insert(pos, bad.clone());
        if rng.chance(0.3) {
            lines.insert(0, String::new());
        }
        let mut e = if idx % 50 == 0 { bundled.clone() } else { tiny.clone() };
        e.condition.set_phoneme_alignment_flag(idx % 4 == 0);
        // (the three ways to hand over lines take turns)
        let r = guard(|| match idx % 3 {
            0 => e.synthesize(lines.clone()),
            1 => e.synthesize(&lines[..]),
            _ => {
                let refs: Vec<&str> = lines.iter().map(|s| s.as_str()).collect();
                e.synthesize(&refs[..])
            }
        });
        // the documented line format decides whether the input is well-formed:
        //   ""                      blank, skipped
        //   "<label>"               no space
        //   "<start> <end> <label>" two numbers, then the label (which may contain spaces)
        // anything else (one space, unparsable number, unparsable label) must be an error
        let expect_ok = lines.iter().all(|l| {
            if l.is_empty() {
                return true;
            }
            let mut it = l.splitn(3, ' ');
            let a = it.next().unwrap_or("");
            match (it.next(), it.next()) {
                (None, _) => a.parse::<Label>().is_ok(),
                (Some(_), None) => false,
                (Some(b), Some(c)) => a.parse::<f64>().is_ok() && b.parse::<f64>().is_ok() && c.parse::<Label>().is_ok(),
            }
        });
        if let Ok(res) = &r {
            if res.is_ok() != expect_ok {
                ctx.violation(
                    if expect_ok { "wellformed-lines-rejected" } else { "malformed-line-accepted" },
                    J::obj().set("kind", kind).set("lines", J::Arr(lines.iter().map(|l| J::Str(l.chars().take(300).collect())).collect())).set("result_is_ok", res.is_ok()),
                );
                return;
            }
        }
        match r {
            Err(p) => {
                if p.in_target() {
                    ctx.violation(&p.sig(), J::obj().set("kind", kind).set("line", bad.chars().take(300).collect::<String>()).set("panic", format!("{}:{} {}", p.file, p.line, p.msg)));
                } else {
                    ctx.inconclusive(&format!("harness panic {}:{} {}", p.file, p.line, p.msg));
                }
            }
            Ok(Ok(_)) => {
                ctx.count(&format!("accepted[{}]", kind), 1.0);
            }
            Ok(Err(er)) => {
                let es = format!("{}", er);
                let class = if es.contains("jlabel") {
                    "jlabel-parse-error"
                } else if es.contains("Expected a fullcontext-label") {
                    "missing-label"
                } else if es.contains("floating-point") {
                    "float-parse"
                } else {
                    "other"
                };
                ctx.count(&format!("rejected[{}]", class), 1.0);
                if class == "jlabel-parse-error" {
                    // reached jlabel's parser (past the first symbol when some of the line is intact)
                    ctx.nontrivial(mix(&[hash_str(kind), hash_str(&bad)]));
                } else {
                    ctx.nontrivial(mix(&[hash_str(kind), hash_str(class), (idx % 7) as u64]));
                }
            }
        }
        if ctx.want_sample() {
            ctx.sample(J::obj().set("kind", kind).set("line", bad.chars().take(200).collect::<String>()));
        }
    });
}
