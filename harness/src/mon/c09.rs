//! C09 — phoneme alignment is honoured (oracle in exact integer arithmetic on the raw annotation).

use crate::ctx::{guard, Ctx};
use crate::env::Env;
use crate::json::J;
use crate::rng::{hash_str, mix, Rng};
use crate::synth::{dur_speed1, ref_label, trajectories};
use jbonsai::duration::DurationEstimator;
use jbonsai::label::{LabelError, Labels, ToLabels};
use jbonsai::model::MeanVari;
use jbonsai::Condition;
use jlabel::Label;

pub use crate::alignlaw::{check_law, frames_exact, known_ends, Ann, Verdict};

/// caller-built Labels with individually present/absent start and end (public Labels::new)
struct Annotated {
    labels: Vec<Label>,
    ann: Vec<Ann>,
}

impl ToLabels for Annotated {
    fn to_labels(self, c: &Condition) -> Result<Labels, LabelError> {
        let rate = c.get_sampling_frequency() as f64 / (c.get_fperiod() as f64 * 1e7);
        let times = self
            .ann
            .iter()
            .map(|a| (a.start.map(|s| s as f64 * rate).unwrap_or(-1.0), a.end.map(|e| e as f64 * rate).unwrap_or(-1.0)))
            .collect();
        Labels::new(self.labels, Some(times))
    }
}

/// time shapes: 0 monotone, 1 reversed/non-monotone, 2 zero-length, 3 fractional frames, 4 huge gaps
fn make_times(rng: &mut Rng, n: usize, shape: usize, rate: usize, fperiod: usize) -> Vec<(u64, u64)> {
    let unit = fperiod as f64 * 1e7 / rate as f64;
    let mut t = 0.0f64;
    let mut v: Vec<(u64, u64)> = (0..n)
        .map(|_| {
            let frames = match shape {
                2 => {
                    if rng.chance(0.4) {
                        0.0
                    } else {
                        rng.range(1, 30) as f64
                    }
                }
                3 => rng.range(0, 40) as f64 + *rng.pick(&[0.5, 0.25, 0.499999, 0.500001, 0.0]),
                4 => rng.range(1, 20000) as f64,
                _ => rng.range(1, 60) as f64,
            };
            let s = t;
            t += frames * unit;
            (s.round() as u64, t.round() as u64)
        })
        .collect();
    if shape == 1 {
        rng.shuffle(&mut v);
    }
    // stay below 10 minutes
    for x in v.iter_mut() {
        x.0 = x.0.min(5_999_999_999);
        x.1 = x.1.min(5_999_999_999);
    }
    v
}

fn ann_json(ann: &[Ann]) -> J {
    J::Arr(ann.iter().map(|a| J::Arr(vec![a.start.into(), a.end.into()])).collect())
}

pub fn run(ctx: &mut Ctx) {
    // ------------------------------------------------ estimator level, synthetic duration models
    // exhaustive presence patterns: each label's (start,end) in {none, start only, end only, both}
    let nmax = if ctx.quick() { 4 } else { 5 };
    let mut total = 0;
    for n in 1..=nmax {
        total += 4usize.pow(n as u32);
    }
    ctx.run_cases("presence-exhaustive", total * 5, true, |ctx, rng, idx| {
        let shape = idx % 5;
        let mut code = idx / 5;
        let mut n = 1;
        loop {
            let c = 4usize.pow(n as u32);
            if code < c {
                break;
            }
            code -= c;
            n += 1;
        }
        let nstate = 1 + idx % 3;
        let (rate, fperiod) = *rng.pick(&[(48000usize, 240usize), (16000, 80), (44100, 220), (22050, 100), (8000, 7)]);
        let times = make_times(rng, n, shape, rate, fperiod);
        let ann: Vec<Ann> = (0..n)
            .map(|i| {
                let p = (code / 4usize.pow(i as u32)) % 4;
                Ann { start: if p & 1 != 0 { Some(times[i].0) } else { None }, end: if p & 2 != 0 { Some(times[i].1) } else { None } }
            })
            .collect();
        let params: Vec<MeanVari> = (0..n * nstate).map(|_| MeanVari(rng.uniform(0.3, 20.0), rng.log_uniform(0.01, 100.0))).collect();
        estimator_case(ctx, &ann, &params, nstate, rate, fperiod, "exhaustive");
    });
    let n = ctx.n(4000, 80000);
    ctx.run_cases("estimator-random", n, false, |ctx, rng, idx| {
        let nl = rng.range(1, 30);
        let nstate = rng.range(1, 7);
        let shape = idx % 5;
        let (rate, fperiod) = *rng.pick(&[(48000usize, 240usize), (16000, 80), (44100, 220), (96000, 480), (8000, 1), (12345, 77)]);
        let times = make_times(rng, nl, shape, rate, fperiod);
        let pat = idx % 4;
        let ann: Vec<Ann> = (0..nl)
            .map(|i| {
                let both = match pat {
                    0 => true,
                    1 => rng.chance(0.5),
                    2 => i + 1 != nl, // no final end
                    _ => rng.chance(0.15),
                };
                if both {
                    Ann { start: Some(times[i].0), end: Some(times[i].1) }
                } else {
                    Ann { start: None, end: None }
                }
            })
            .collect();
        let params: Vec<MeanVari> = (0..nl * nstate).map(|_| MeanVari(rng.uniform(0.3, 30.0), rng.log_uniform(0.01, 200.0))).collect();
        estimator_case(ctx, &ann, &params, nstate, rate, fperiod, "random");
    });

    // ------------------------------------------------ Labels::load_from_strings: units and inheritance
    let env = Env::new(ctx);
    let n = ctx.n(200, 10000);
    ctx.run_cases("label-times", n, false, |ctx, rng, idx| {
        let nl = rng.range(1, 12);
        let (rate, fperiod) = *rng.pick(&[(48000usize, 240usize), (16000, 80), (44100, 220), (96000, 480)]);
        let times = make_times(rng, nl, idx % 5, rate, fperiod);
        let labels = env.corpus.utterance(rng, nl, 1);
        let present: Vec<bool> = (0..nl).map(|_| rng.chance(0.6)).collect();
        let lines: Vec<String> = (0..nl).map(|i| if present[i] { format!("{} {} {}", times[i].0, times[i].1, labels[i]) } else { labels[i].to_string() }).collect();
        let ann: Vec<Ann> = (0..nl).map(|i| if present[i] { Ann { start: Some(times[i].0), end: Some(times[i].1) } } else { Ann { start: None, end: None } }).collect();
        match Labels::load_from_strings(rate, fperiod, &lines) {
            Ok(l) => {
                let ends = known_ends(&ann);
                let got = l.times();
                if got.len() != nl || l.labels().len() != nl {
                    ctx.violation("label-count", J::obj().set("got", got.len()).set("expected", nl));
                    return;
                }
                for i in 0..nl {
                    let want = ends[i].map(|e| e as f64 * rate as f64 / (fperiod as f64 * 1e7));
                    let ok = match want {
                        Some(w) => got[i].1 >= 0.0 && (got[i].1 - w).abs() <= 1e-9 * (1.0 + w),
                        None => got[i].1 < 0.0,
                    };
                    if !ok {
                        ctx.violation(
                            "end-time-units-or-inheritance",
                            J::obj().set("label", i).set("got_end_frames", got[i].1).set("expected_end_frames", want).set("annotation", ann_json(&ann)).set("rate", rate).set("fperiod", fperiod),
                        );
                        return;
                    }
                }
                ctx.count("time_lists_checked", 1.0);
                if ann.iter().zip(&ends).any(|(a, e)| a.end.is_none() && e.is_some()) {
                    ctx.nontrivial(mix(&[3, hash_str(&format!("{:?}", ann))]));
                }
            }
            Err(e) => ctx.violation("wellformed-time-annotated-lines-rejected", J::from(format!("{}", e))),
        }
    });

    // ------------------------------------------------ end to end on the bundled voice
    let bundled = env.load_bundled();
    let n = ctx.n(160, 4000);
    ctx.run_cases("end-to-end", n, false, |ctx, rng, idx| {
        let nl = rng.range(1, if ctx.quick() { 8 } else { 30 });
        let mut e = bundled.clone();
        e.condition.set_phoneme_alignment_flag(true);
        if idx % 3 == 1 {
            e.condition.set_fperiod(*rng.pick(&[80usize, 120, 200, 480]));
        }
        if idx % 5 == 2 {
            e.condition.set_sampling_frequency(*rng.pick(&[16000usize, 22050, 44100]));
        }
        // speed must have no influence when alignment is on
        if idx % 4 == 0 {
            e.condition.set_speed(rng.uniform(0.5, 2.0));
        }
        let rate = e.condition.get_sampling_frequency();
        let fperiod = e.condition.get_fperiod();
        let nstate = 5;
        let labels = env.corpus.random_utterance(rng, nl, nl);
        let nl = labels.len();
        let times = make_times(rng, nl, idx % 5, rate, fperiod);
        let pat = (idx / 5) % 5;
        let ann: Vec<Ann> = (0..nl)
            .map(|i| {
                let p = match pat {
                    0 => 3,
                    1 => {
                        if rng.chance(0.5) {
                            3
                        } else {
                            0
                        }
                    }
                    2 => {
                        if i + 1 == nl {
                            0
                        } else {
                            3
                        }
                    }
                    3 => 0,
                    _ => rng.below(4),
                };
                Ann { start: if p & 1 != 0 { Some(times[i].0) } else { None }, end: if p & 2 != 0 { Some(times[i].1) } else { None } }
            })
            .collect();
        // expected fallback durations of trailing labels from the file
        let mut trailing: Vec<(usize, bool)> = Vec::new();
        let ends = known_ends(&ann);
        let last_known = (0..nl).rev().find(|i| ends[*i].is_some());
        let first_trailing = last_known.map(|i| i + 1).unwrap_or(0);
        for l in &labels[first_trailing..] {
            match ref_label(&env.bundled_ref, &l.to_string()) {
                Ok(rl) => trailing.extend(rl.dur.iter().map(|(m, _)| dur_speed1(*m))),
                Err(er) => {
                    ctx.inconclusive(&format!("reference: {}", er));
                    return;
                }
            }
        }
        let d = |extra: J| J::obj().set("annotation", ann_json(&ann)).set("rate", rate).set("fperiod", fperiod).set("labels", nl).set("observed", extra);
        let input = Annotated { labels: labels.clone(), ann: ann.clone() };
        let r = guard(|| trajectories(&e, input));
        let run = match r {
            Ok(Ok(r)) => r,
            Ok(Err(er)) => {
                ctx.violation("synthesize-err", d(J::from(format!("{}", er))));
                return;
            }
            Err(p) => {
                if p.in_target() {
                    ctx.violation(&p.sig(), d(J::from(format!("{}:{} {}", p.file, p.line, p.msg))));
                } else {
                    ctx.inconclusive(&format!("harness panic {}:{} {}", p.file, p.line, p.msg));
                }
                return;
            }
        };
        match check_law(&run.durations, &ann, nstate, rate, fperiod, Some(&trailing)) {
            Verdict::Bad(sig, j) => ctx.violation(&format!("end-to-end:{}", sig), d(j)),
            Verdict::Ok { groups_multi, inherited } => {
                // waveform length = fperiod x frames (string form for fully / not at all annotated lines)
                let all_or_none = ann.iter().all(|a| a.start.is_some() == a.end.is_some());
                if all_or_none && idx % 2 == 0 {
                    let lines: Vec<String> = labels
                        .iter()
                        .zip(&ann)
                        .map(|(l, a)| match (a.start, a.end) {
                            (Some(s), Some(en)) => format!("{} {} {}", s, en, l),
                            _ => l.to_string(),
                        })
                        .collect();
                    // the lines are handed over in every form the API takes: an owned vector, a
                    // slice of Strings or of &str, a fixed-size array — and, when nothing is
                    // annotated, already parsed labels
                    let refs: Vec<&str> = lines.iter().map(|s| s.as_str()).collect();
                    let nothing_annotated = ann.iter().all(|a| a.start.is_none() && a.end.is_none());
                    let form = (idx / 2) % 5;
                    let rendered = match form {
                        0 => e.synthesize(lines.clone()),
                        1 => e.synthesize(&lines[..]),
                        2 => e.synthesize(&refs[..]),
                        3 => match lines.len() {
                            1 => e.synthesize(&array_of::<1>(&lines)),
                            2 => e.synthesize(&array_of::<2>(&lines)),
                            3 => e.synthesize(&array_of::<3>(&lines)),
                            4 => e.synthesize(&array_of::<4>(&lines)),
                            5 => e.synthesize(&array_of::<5>(&lines)),
                            6 => e.synthesize(&array_of::<6>(&lines)),
                            7 => e.synthesize(&array_of::<7>(&lines)),
                            _ => e.synthesize(&refs[..]),
                        },
                        _ => {
                            if nothing_annotated {
                                e.synthesize(labels.clone())
                            } else {
                                e.synthesize(lines.clone())
                            }
                        }
                    };
                    ctx.count(&format!("entry_form_{}", form), 1.0);
                    match rendered {
                        Ok(w) => {
                            let total: usize = run.durations.iter().sum();
                            if w.len() != total * fperiod {
                                ctx.violation("waveform-length-differs-from-aligned-frames", d(J::obj().set("len", w.len()).set("frames", total)));
                            }
                            ctx.count("waveforms_rendered", 1.0);
                        }
                        Err(er) => ctx.violation("synthesize-err", d(J::from(format!("{}", er)))),
                    }
                }
                ctx.count("aligned_utterances", 1.0);
                if inherited >= 1 && groups_multi >= 1 {
                    ctx.nontrivial(mix(&[5, hash_str(&format!("{:?}", ann)), rate as u64, fperiod as u64]));
                }
                if ctx.want_sample() {
                    ctx.sample(d(J::obj().set("durations", J::from(run.durations.clone()))));
                }
            }
        }
    });
}

/// the first N lines as a fixed-size array (N == lines.len())
fn array_of<const N: usize>(lines: &[String]) -> [String; N] {
    std::array::from_fn(|i| lines[i].clone())
}

fn estimator_case(ctx: &mut Ctx, ann: &[Ann], params: &[MeanVari], nstate: usize, rate: usize, fperiod: usize, tag: &str) {
    // the public route: Labels::new fills the gaps, DurationEstimator consumes times()
    let r = rate as f64 / (fperiod as f64 * 1e7);
    let times: Vec<(f64, f64)> = ann.iter().map(|a| (a.start.map(|s| s as f64 * r).unwrap_or(-1.0), a.end.map(|e| e as f64 * r).unwrap_or(-1.0))).collect();
    // Labels::new needs label objects of the same count; any label will do
    let dummy: Label = "xx^xx-sil+b=o/A:xx+xx+xx/B:xx-xx_xx/C:xx_xx+xx/D:xx+xx_xx/E:xx_xx!xx_xx-xx/F:xx_xx#xx_xx@xx_xx|xx_xx/G:4_4%0_xx_xx/H:xx_xx/I:xx-xx@xx+xx&xx-xx|xx+xx/J:1_4/K:1+1-4".parse().unwrap();
    let labels = match Labels::new(vec![dummy; ann.len()], Some(times)) {
        Ok(l) => l,
        Err(e) => {
            ctx.violation("labels-new-err", J::from(format!("{}", e)));
            return;
        }
    };
    let est = DurationEstimator::new(params.to_vec(), nstate);
    let dur = est.create_with_alignment(labels.times());
    let ends = known_ends(ann);
    let last_known = (0..ann.len()).rev().find(|i| ends[*i].is_some());
    let first_trailing = last_known.map(|i| i + 1).unwrap_or(0);
    let trailing: Vec<(usize, bool)> = params[first_trailing * nstate..].iter().map(|p| dur_speed1(p.0)).collect();
    let d = |extra: J| J::obj().set("annotation", ann_json(ann)).set("nstate", nstate).set("rate", rate).set("fperiod", fperiod).set("means", J::Arr(params.iter().take(12).map(|p| J::Num(p.0)).collect())).set("observed", extra);
    match check_law(&dur, ann, nstate, rate, fperiod, Some(&trailing)) {
        Verdict::Bad(sig, j) => ctx.violation(&sig, d(j.set("durations", J::from(dur.clone())))),
        Verdict::Ok { groups_multi, inherited } => {
            ctx.count("estimator_cases_ok", 1.0);
            if inherited >= 1 && groups_multi >= 1 {
                ctx.nontrivial(mix(&[hash_str(tag), hash_str(&format!("{:?}{}{}{}", ann, nstate, rate, fperiod))]));
            }
            if ctx.want_sample() {
                ctx.sample(d(J::obj().set("durations", J::from(dur))));
            }
        }
    }
}
