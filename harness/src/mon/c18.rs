//! C18 — a malformed voice file is an error, not a crash (fault enumeration).

use crate::alloc;
use crate::ctx::{guard, Ctx};
use crate::env::Env;
use crate::json::J;
use crate::rng::{hash_str, mix, Rng};
use crate::voicegen::{self, VoiceOpts, VoiceSpec};
use jbonsai::Engine;

pub struct Fault {
    pub class: &'static str,
    pub section: String,
    pub descr: String,
    pub bytes: Vec<u8>,
}

fn find(hay: &[u8], needle: &[u8]) -> Option<usize> {
    hay.windows(needle.len()).position(|w| w == needle)
}

/// spans (start, end) of every decimal number in the header text (before [DATA])
fn header_numbers(bytes: &[u8]) -> Vec<(usize, usize)> {
    let d = find(bytes, b"[DATA]\n").unwrap_or(bytes.len());
    let mut v = Vec::new();
    let mut i = 0;
    while i < d {
        if bytes[i].is_ascii_digit() {
            let s = i;
            while i < d && bytes[i].is_ascii_digit() {
                i += 1;
            }
            // only numbers that are values (preceded by ':' '-' ',' '=' '.') not digits inside names like LF0
            let prev = if s > 0 { bytes[s - 1] } else { b' ' };
            if matches!(prev, b':' | b'-' | b',' | b'=' | b'.') {
                v.push((s, i));
            }
        } else {
            i += 1;
        }
    }
    v
}

fn header_lines(bytes: &[u8]) -> Vec<(usize, usize)> {
    let d = find(bytes, b"[DATA]\n").map(|x| x + 7).unwrap_or(bytes.len());
    let mut v = Vec::new();
    let mut s = 0;
    for i in 0..d {
        if bytes[i] == b'\n' {
            v.push((s, i + 1));
            s = i + 1;
        }
    }
    v
}

fn splice(bytes: &[u8], a: usize, b: usize, with: &[u8]) -> Vec<u8> {
    let mut v = Vec::with_capacity(bytes.len() + with.len());
    v.extend_from_slice(&bytes[..a]);
    v.extend_from_slice(with);
    v.extend_from_slice(&bytes[b..]);
    v
}

fn section_of(bytes: &[u8], off: usize) -> String {
    let marks: [(&[u8], &str); 4] = [(b"[GLOBAL]\n", "GLOBAL"), (b"[STREAM]\n", "STREAM"), (b"[POSITION]\n", "POSITION"), (b"[DATA]\n", "DATA")];
    let mut cur = "PREFIX";
    for (m, name) in marks {
        if let Some(p) = find(bytes, m) {
            if off >= p {
                cur = name;
            }
        }
    }
    cur.to_string()
}

/// Systematic byte-level single faults of a valid file. `budget_random`: how many random-offset
/// faults to add on top of the systematic ones.
pub fn byte_faults(bytes: &[u8], rng: &mut Rng, budget_random: usize, thin: usize) -> Vec<Fault> {
    let mut out = Vec::new();
    let d = find(bytes, b"[DATA]\n").map(|x| x + 7).unwrap_or(bytes.len());
    // 1. truncation at every section boundary +-{0,1,2} and at random offsets
    let mut cuts: Vec<usize> = Vec::new();
    for m in [&b"[GLOBAL]\n"[..], b"[STREAM]\n", b"[POSITION]\n", b"[DATA]\n"] {
        if let Some(p) = find(bytes, m) {
            for k in [0usize, 1, 2] {
                cuts.push(p.saturating_sub(k));
                cuts.push((p + k).min(bytes.len()));
                cuts.push((p + m.len() + k).min(bytes.len()));
            }
        }
    }
    // data section boundaries from the position table
    if let Some(p) = find(bytes, b"[POSITION]\n") {
        let txt = String::from_utf8_lossy(&bytes[p..d]).to_string();
        for tok in txt.split(|c: char| !c.is_ascii_digit()).filter(|t| !t.is_empty()) {
            if let Ok(o) = tok.parse::<usize>() {
                for k in [0usize, 1, 2] {
                    cuts.push(d.saturating_add(o).saturating_add(k).min(bytes.len()));
                    cuts.push(d.saturating_add(o).saturating_sub(k).min(bytes.len()));
                }
            }
        }
    }
    cuts.push(0);
    cuts.push(bytes.len().saturating_sub(1));
    for _ in 0..budget_random {
        cuts.push(rng.below(bytes.len()));
    }
    cuts.retain(|c| *c <= bytes.len());
    cuts.sort();
    cuts.dedup();
    for (i, c) in cuts.iter().enumerate() {
        if thin > 1 && i % thin != 0 {
            continue;
        }
        out.push(Fault { class: "truncate", section: section_of(bytes, *c), descr: format!("truncate at byte {}", c), bytes: bytes[..*c].to_vec() });
    }
    // 2. every header number replaced
    let nums = header_numbers(bytes);
    for (ni, (a, b)) in nums.iter().enumerate() {
        let v: u128 = std::str::from_utf8(&bytes[*a..*b]).unwrap().parse().unwrap_or(0);
        let reps: Vec<String> = vec![
            "0".into(),
            "1".into(),
            format!("{}", v + 1),
            format!("{}", v.saturating_sub(1)),
            "99999999999".into(),
            "18446744073709551616".into(),
            "340282366920938463463374607431768211456".into(),
            "-5".into(),
            "abc".into(),
            "".into(),
            "４８０".into(),
            "é1".into(),
            "\r1".into(),
        ];
        for (ri, r) in reps.iter().enumerate() {
            if thin > 1 && (ni * 13 + ri) % thin != 0 {
                continue;
            }
            if r.as_bytes() == &bytes[*a..*b] {
                continue;
            }
            out.push(Fault {
                class: "header-number",
                section: section_of(bytes, *a),
                descr: format!("header number #{} ({}) -> {:?}", ni, String::from_utf8_lossy(&bytes[*a..*b]), r),
                bytes: splice(bytes, *a, *b, r.as_bytes()),
            });
        }
    }
    // 3. range endpoints swapped / inverted
    {
        let mut i = 0;
        while i + 1 < nums.len() {
            let (a0, a1) = nums[i];
            let (b0, b1) = nums[i + 1];
            if a1 < bytes.len() && bytes[a1] == b'-' && b0 == a1 + 1 {
                let mut v = Vec::new();
                v.extend_from_slice(&bytes[..a0]);
                v.extend_from_slice(&bytes[b0..b1]);
                v.push(b'-');
                v.extend_from_slice(&bytes[a0..a1]);
                v.extend_from_slice(&bytes[b1..]);
                out.push(Fault { class: "range-inverted", section: "POSITION".into(), descr: format!("range #{} endpoints swapped", i), bytes: v });
                i += 2;
            } else {
                i += 1;
            }
        }
    }
    // 4. header lines deleted / duplicated, 5. keys renamed, 6. section tags damaged
    for (li, (a, b)) in header_lines(bytes).iter().enumerate() {
        if thin > 1 && li % thin != 0 {
            continue;
        }
        let line = &bytes[*a..*b];
        out.push(Fault { class: "line-deleted", section: section_of(bytes, *a), descr: format!("deleted line {:?}", String::from_utf8_lossy(line)), bytes: splice(bytes, *a, *b, b"") });
        let mut dup = line.to_vec();
        dup.extend_from_slice(line);
        out.push(Fault { class: "line-duplicated", section: section_of(bytes, *a), descr: format!("duplicated line {:?}", String::from_utf8_lossy(line)), bytes: splice(bytes, *a, *b, &dup) });
        if line.first() == Some(&b'[') {
            let mut t = line.to_vec();
            t[1] = b'X';
            out.push(Fault { class: "section-tag", section: section_of(bytes, *a), descr: format!("damaged tag {:?}", String::from_utf8_lossy(line)), bytes: splice(bytes, *a, *b, &t) });
            let t2: Vec<u8> = line.iter().filter(|c| **c != b']').cloned().collect();
            out.push(Fault { class: "section-tag", section: section_of(bytes, *a), descr: "tag without ]".into(), bytes: splice(bytes, *a, *b, &t2) });
        } else if let Some(c) = line.iter().position(|c| *c == b':') {
            let mut t = line.to_vec();
            t[0] = b'Z';
            out.push(Fault { class: "key-renamed", section: section_of(bytes, *a), descr: format!("renamed key in {:?}", String::from_utf8_lossy(line)), bytes: splice(bytes, *a, *b, &t) });
            let mut t = line.to_vec();
            t.remove(c);
            out.push(Fault { class: "colon-removed", section: section_of(bytes, *a), descr: format!("colon removed in {:?}", String::from_utf8_lossy(line)), bytes: splice(bytes, *a, *b, &t) });
            // value emptied
            let mut t = line[..=c].to_vec();
            t.push(b'\n');
            out.push(Fault { class: "value-emptied", section: section_of(bytes, *a), descr: format!("value emptied in {:?}", String::from_utf8_lossy(line)), bytes: splice(bytes, *a, *b, &t) });
        }
    }
    // 7b. tree bodies blanked in place (same length, so no offset moves): whole body, and all but the first line
    {
        let mut from = d;
        let mut k = 0;
        while let Some(p) = find(&bytes[from.min(bytes.len())..], b"]\n{\n").map(|x| x + from) {
            let body = p + 4;
            let Some(e) = find(&bytes[body..], b"}\n").map(|x| x + body) else { break };
            k += 1;
            if thin <= 1 || k % thin == 0 {
                let mut v = bytes.to_vec();
                for b in v[body..e].iter_mut() {
                    if *b != b'\n' {
                        *b = b' ';
                    }
                }
                out.push(Fault { class: "tree-body-blanked", section: "DATA".into(), descr: format!("tree body at data byte {} blanked", body - d), bytes: v });
                if let Some(l) = find(&bytes[body..e], b"\n").map(|x| x + body + 1) {
                    let mut v = bytes.to_vec();
                    for b in v[l..e].iter_mut() {
                        if *b != b'\n' {
                            *b = b' ';
                        }
                    }
                    out.push(Fault { class: "tree-body-first-line-only", section: "DATA".into(), descr: format!("tree body at data byte {} cut to its first line", body - d), bytes: v });
                }
            }
            from = e;
        }
    }
    // 3b. consistent double fault: the stream list cut to its first k names together with
    // NUM_STREAMS:k (k = 0 .. n-1), so that the count check passes
    {
        let lines = header_lines(bytes);
        let find_line = |key: &[u8]| lines.iter().find(|(a, b)| bytes[*a..*b].starts_with(key)).cloned();
        if let (Some((na, nb)), Some((ta, tb))) = (find_line(b"NUM_STREAMS:"), find_line(b"STREAM_TYPE:")) {
            let types = String::from_utf8_lossy(&bytes[ta + 12..tb]).trim_end().to_string();
            let names: Vec<&str> = types.split(',').filter(|x| !x.is_empty()).collect();
            for k in 0..names.len() {
                let num = format!("NUM_STREAMS:{}\n", k);
                let ty = format!("STREAM_TYPE:{}\n", names[..k].join(","));
                // splice the later line first so that the earlier offsets stay valid
                let v = if na < ta {
                    let v = splice(bytes, ta, tb, ty.as_bytes());
                    splice(&v, na, nb, num.as_bytes())
                } else {
                    let v = splice(bytes, na, nb, num.as_bytes());
                    splice(&v, ta, tb, ty.as_bytes())
                };
                out.push(Fault { class: "streams-cut", section: "GLOBAL".into(), descr: format!("NUM_STREAMS and STREAM_TYPE cut to the first {} stream(s)", k), bytes: v });
            }
        }
    }
    // 3c. double faults that are harmless one by one: a size in the header set to 0 (PDF records
    // of length 0) together with the start of a PDF range moved by one byte (the leaf counts are
    // then read from shifted bytes and are huge)
    {
        let lines = header_lines(bytes);
        let mut sizes: Vec<(usize, usize, String)> = Vec::new(); // (value start, value end, key)
        let mut starts: Vec<(usize, usize, String)> = Vec::new();
        for (a, b) in &lines {
            let line = &bytes[*a..*b];
            let Some(c) = line.iter().position(|x| *x == b':') else { continue };
            let key = String::from_utf8_lossy(&line[..c]).to_string();
            if key == "NUM_STATES" || key.starts_with("VECTOR_LENGTH[") || key.starts_with("NUM_WINDOWS[") {
                let end = *b - 1; // before the newline
                sizes.push((a + c + 1, end, key));
            } else if key.contains("_PDF") {
                // first number of the (first) range
                let vs = a + c + 1;
                let ve = (vs..*b).find(|i| !bytes[*i].is_ascii_digit()).unwrap_or(*b);
                if ve > vs {
                    starts.push((vs, ve, key));
                }
            }
        }
        let mut k = 0;
        for (sa, sb, skey) in &sizes {
            for (ra, rb, rkey) in &starts {
                k += 1;
                if thin > 1 && k % thin != 0 {
                    continue;
                }
                let old: u64 = String::from_utf8_lossy(&bytes[*ra..*rb]).parse().unwrap_or(0);
                let newstart = format!("{}", old + 1);
                // splice the later position first
                let v = if sa > ra {
                    let v = splice(bytes, *sa, *sb, b"0");
                    splice(&v, *ra, *rb, newstart.as_bytes())
                } else {
                    let v = splice(bytes, *ra, *rb, newstart.as_bytes());
                    splice(&v, *sa, *sb, b"0")
                };
                out.push(Fault { class: "zero-size-and-shifted-pdf", section: "GLOBAL".into(), descr: format!("{} -> 0 together with the start of {} + 1", skey, rkey), bytes: v });
            }
        }
    }
    // 7c. the first / last byte of every data range of the position table -> a non-ASCII byte
    // or CR (text parsers that peek one character at a section edge)
    if let Some(p) = find(bytes, b"[POSITION]\n") {
        let txt = String::from_utf8_lossy(&bytes[p..d.min(bytes.len())]).to_string();
        let toks: Vec<&str> = txt.split(|c: char| !(c.is_ascii_digit() || c == '-')).filter(|t| t.contains('-')).collect();
        for (ri, tok) in toks.iter().enumerate() {
            let mut it = tok.splitn(2, '-');
            let (Some(a), Some(b)) = (it.next().and_then(|x| x.parse::<usize>().ok()), it.next().and_then(|x| x.parse::<usize>().ok())) else { continue };
            for (what, o) in [("first", d.saturating_add(a)), ("last", d.saturating_add(b))] {
                if o >= bytes.len() {
                    continue;
                }
                for (bi, nb) in [0xFFu8, 0x80, 0xC3, b'\r'].into_iter().enumerate() {
                    if thin > 1 && (ri * 8 + bi) % thin != 0 {
                        continue;
                    }
                    if bytes[o] == nb {
                        continue;
                    }
                    let mut v = bytes.to_vec();
                    v[o] = nb;
                    out.push(Fault { class: "range-edge-byte", section: "DATA".into(), descr: format!("{} byte of data range {} ({}) -> 0x{:02x}", what, ri, tok, nb), bytes: v });
                }
            }
        }
    }
    // 6b. quotes: every quote of the header removed / replaced; an opening quote put in front of every value
    {
        let mut qi = 0;
        for o in 0..d.min(bytes.len()) {
            if bytes[o] == b'"' {
                qi += 1;
                out.push(Fault { class: "quote-removed", section: section_of(bytes, o), descr: format!("header quote #{} removed", qi), bytes: splice(bytes, o, o + 1, b"") });
                out.push(Fault { class: "quote-replaced", section: section_of(bytes, o), descr: format!("header quote #{} -> x", qi), bytes: splice(bytes, o, o + 1, b"x") });
            }
        }
        for (li, (a, b)) in header_lines(bytes).iter().enumerate() {
            if thin > 1 && li % thin != 0 {
                continue;
            }
            if let Some(c) = bytes[*a..*b].iter().position(|c| *c == b':') {
                let at = a + c + 1;
                out.push(Fault { class: "quote-inserted", section: section_of(bytes, at), descr: format!("opening quote inserted in line {}", li), bytes: splice(bytes, at, at, b"\"") });
                out.push(Fault { class: "quote-inserted", section: section_of(bytes, at), descr: format!("quote inserted before the key of line {}", li), bytes: splice(bytes, *a, *a, b"\"") });
            }
        }
    }
    // 6c. carriage returns: CR after every section tag, CR in front of every header line, CRLF header
    for (li, (a, b)) in header_lines(bytes).iter().enumerate() {
        if thin > 1 && li % thin != 0 {
            continue;
        }
        let line = &bytes[*a..*b];
        if line.first() == Some(&b'[') {
            out.push(Fault { class: "cr-after-tag", section: section_of(bytes, *a), descr: format!("CR LF inserted after {:?}", String::from_utf8_lossy(line)), bytes: splice(bytes, *b, *b, b"\r\n") });
            out.push(Fault { class: "cr-after-tag", section: section_of(bytes, *a), descr: format!("CR inserted after {:?}", String::from_utf8_lossy(line)), bytes: splice(bytes, *b, *b, b"\r") });
        } else {
            out.push(Fault { class: "cr-before-line", section: section_of(bytes, *a), descr: format!("CR before line {}", li), bytes: splice(bytes, *a, *a, b"\r") });
            // first byte of the line replaced by CR / by a multi-byte character
            out.push(Fault { class: "line-first-byte", section: section_of(bytes, *a), descr: format!("first byte of line {} -> CR", li), bytes: splice(bytes, *a, *a + 1, b"\r") });
            out.push(Fault { class: "line-first-byte", section: section_of(bytes, *a), descr: format!("first byte of line {} -> multi-byte", li), bytes: splice(bytes, *a, *a + 1, "あ".as_bytes()) });
        }
    }
    if d <= bytes.len() {
        let head = String::from_utf8_lossy(&bytes[..d]).replace('\n', "\r\n");
        let mut v = head.into_bytes();
        v.extend_from_slice(&bytes[d..]);
        out.push(Fault { class: "crlf-header", section: "GLOBAL".into(), descr: "whole header with CRLF line ends".into(), bytes: v });
    }
    // 9. non-UTF-8 / odd bytes in the header
    for _ in 0..(budget_random / 4).max(4) {
        let o = rng.below(d.max(1));
        let mut v = bytes.to_vec();
        v[o] = *rng.pick(&[0xFFu8, 0x80, 0xC3, 0x00, b'"', b'[', b']', b':', b',', b'-', b'\n', b'\r', b'\t', b' ']);
        out.push(Fault { class: "header-byte", section: section_of(bytes, o), descr: format!("header byte {} -> 0x{:02x}", o, v[o]), bytes: v });
    }
    // 8. byte substitutions at random offsets of the data part (text and binary alike)
    for _ in 0..budget_random {
        if bytes.len() <= d {
            break;
        }
        let o = d + rng.below(bytes.len() - d);
        let mut v = bytes.to_vec();
        v[o] = *rng.pick(&[b'0', b'{', b'}', b'"', b' ', b'\n', b'-', 0xFF, b'Q', b'*', b'[', b']', b'?', 0x00]);
        out.push(Fault { class: "data-byte", section: "DATA".into(), descr: format!("data byte {} -> 0x{:02x}", o, v[o]), bytes: v });
    }
    out
}

/// Structural faults of the tree/question/window text of a generated voice; all other
/// positions stay valid because the text is mutated before the file is laid out.
pub fn text_faults(spec: &VoiceSpec, rng: &mut Rng, thin: usize) -> Vec<Fault> {
    let mut sections: Vec<String> = Vec::new();
    voicegen::write_hooked(spec, &mut |name, t| {
        sections.push(name.to_string());
        t.into_bytes()
    });
    let mut out = Vec::new();
    let mut k = 0usize;
    for sec in &sections {
        let is_win = sec.starts_with("STREAM_WIN");
        let muts: &[&str] = if is_win {
            &["win-count-up", "win-count-zero", "win-count-huge", "win-coef-text", "win-empty", "win-no-newline", "win-neg-count"]
        } else {
            &[
                "unknown-question-in-node", "qs-renamed", "qs-deleted", "child-to-missing-node", "duplicate-node-id", "node-id-far-away", "child-to-root", "leaf-without-number",
                "leaf-zero", "leaf-huge", "leaf-overflow", "no-closing-brace", "no-opening-brace", "state-text", "state-negative", "state-overflow",
                "pattern-tag", "requote", "unbalanced-quote", "bad-pattern-char", "pattern-byte-to-structure", "empty-pattern-list", "tokens-swapped", "non-utf8", "single-node-to-node",
                "empty-section", "trees-only-whitespace", "qs-no-braces", "node-id-text", "extra-token", "missing-token", "nul-byte", "crlf",
                "tree-body-emptied", "tree-body-blanked", "tree-body-first-line-only", "tree-duplicated", "tree-deleted", "questions-only", "all-quotes-removed",
            ]
        };
        for m in muts {
            k += 1;
            if thin > 1 && k % thin != 0 {
                continue;
            }
            let seed = rng.next_u64();
            let target = sec.clone();
            let mname = *m;
            let mut applied = false;
            let bytes = voicegen::write_hooked(spec, &mut |name, t| {
                if name == target {
                    let mut r = Rng::new(seed);
                    let (b, ok) = mutate_text(&t, mname, &mut r);
                    applied = ok;
                    b
                } else {
                    t.into_bytes()
                }
            });
            if applied {
                out.push(Fault { class: mname, section: sec.clone(), descr: format!("{} in {}", mname, sec), bytes });
            }
        }
    }
    out
}

fn replace_nth_token(t: &str, pred: impl Fn(&str) -> bool, n: usize, with: &str) -> Option<String> {
    // tokens separated by whitespace; keeps the layout
    let mut idx = 0;
    let mut count = 0;
    let b = t.as_bytes();
    while idx < b.len() {
        while idx < b.len() && (b[idx] == b' ' || b[idx] == b'\n') {
            idx += 1;
        }
        let s = idx;
        while idx < b.len() && b[idx] != b' ' && b[idx] != b'\n' {
            idx += 1;
        }
        if s < idx && pred(&t[s..idx]) {
            if count == n {
                return Some(format!("{}{}{}", &t[..s], with, &t[idx..]));
            }
            count += 1;
        }
    }
    None
}

fn count_tokens(t: &str, pred: impl Fn(&str) -> bool) -> usize {
    t.split([' ', '\n']).filter(|x| !x.is_empty() && pred(x)).count()
}

fn mutate_text(t: &str, m: &str, rng: &mut Rng) -> (Vec<u8>, bool) {
    let is_leaf = |x: &str| x.trim_matches('"').contains("_s") || x.trim_matches('"').starts_with("gv_") || x.trim_matches('"').starts_with("dur_");
    let is_nodeid = |x: &str| x.trim_matches('"').parse::<i64>().is_ok();
    let nleaf = count_tokens(t, is_leaf);
    let nnode = count_tokens(t, is_nodeid);
    let pick = |rng: &mut Rng, n: usize| if n == 0 { 0 } else { rng.below(n) };
    let r: Option<String> = match m {
        "win-count-up" => replace_nth_token(t, |x| x.parse::<usize>().is_ok(), 0, "9"),
        "win-count-zero" => replace_nth_token(t, |x| x.parse::<usize>().is_ok(), 0, "0"),
        "win-count-huge" => replace_nth_token(t, |x| x.parse::<usize>().is_ok(), 0, "99999999999999999999999"),
        "win-neg-count" => replace_nth_token(t, |x| x.parse::<usize>().is_ok(), 0, "-1"),
        "win-coef-text" => replace_nth_token(t, |x| x.parse::<f64>().is_ok(), 1, "abc"),
        "win-empty" => Some(String::new()),
        "win-no-newline" => Some(t.trim_end().to_string()),
        "unknown-question-in-node" => {
            // the question name is the token after a node id at line start
            let lines: Vec<&str> = t.lines().collect();
            let cand: Vec<usize> = lines.iter().enumerate().filter(|(_, l)| l.split_whitespace().count() == 4).map(|(i, _)| i).collect();
            if cand.is_empty() {
                None
            } else {
                let li = *rng.pick(&cand);
                let toks: Vec<&str> = lines[li].split_whitespace().collect();
                let new = format!(" {} NoSuchQuestion {} {} ", toks[0], toks[2], toks[3]);
                let mut l2: Vec<String> = lines.iter().map(|s| s.to_string()).collect();
                l2[li] = new;
                Some(l2.join("\n") + "\n")
            }
        }
        "qs-renamed" => t.find("QS ").map(|p| format!("{}QS Zz{}", &t[..p], &t[p + 3..])),
        "qs-deleted" => t.find("QS ").and_then(|p| t[p..].find('\n').map(|e| format!("{}{}", &t[..p], &t[p + e + 1..]))),
        "child-to-missing-node" => {
            if nnode > 1 {
                replace_nth_token(t, is_nodeid, 1 + pick(rng, nnode - 1), "-999")
            } else {
                replace_nth_token(t, is_leaf, pick(rng, nleaf), "-999")
            }
        }
        "node-id-far-away" => {
            // the number that names a node (at the start of its line) is arbitrary text to a
            // reader: a far-away one must cost no more than a near one
            let lines: Vec<&str> = t.lines().collect();
            let cand: Vec<usize> = lines.iter().enumerate().filter(|(_, l)| l.split_whitespace().count() == 4).map(|(i, _)| i).collect();
            if cand.is_empty() {
                None
            } else {
                let li = cand[if cand.len() > 1 { 1 + rng.below(cand.len() - 1) } else { 0 }];
                let toks: Vec<&str> = lines[li].split_whitespace().collect();
                let far = *rng.pick(&["-20000000", "-2000000000", "-99999999", "-300000000000", "-9000000000000000000"]);
                let mut l2: Vec<String> = lines.iter().map(|s| s.to_string()).collect();
                l2[li] = format!(" {} {} {} {} ", far, toks[1], toks[2], toks[3]);
                Some(l2.join("\n") + "\n")
            }
        }
        "child-to-root" => {
            // a child reference that names the root (or the node itself): a cycle
            if nnode > 1 {
                replace_nth_token(t, is_nodeid, 1 + pick(rng, nnode - 1), "0")
            } else {
                None
            }
        }
        "duplicate-node-id" => {
            let lines: Vec<&str> = t.lines().collect();
            let cand: Vec<usize> = lines.iter().enumerate().filter(|(_, l)| l.split_whitespace().count() == 4).map(|(i, _)| i).collect();
            if cand.len() < 2 {
                None
            } else {
                let toks: Vec<&str> = lines[cand[1]].split_whitespace().collect();
                let first: Vec<&str> = lines[cand[0]].split_whitespace().collect();
                let mut l2: Vec<String> = lines.iter().map(|s| s.to_string()).collect();
                l2[cand[1]] = format!(" {} {} {} {} ", first[0], toks[1], toks[2], toks[3]);
                Some(l2.join("\n") + "\n")
            }
        }
        "leaf-without-number" => replace_nth_token(t, is_leaf, pick(rng, nleaf), "\"abc\""),
        "leaf-zero" => replace_nth_token(t, is_leaf, pick(rng, nleaf), "\"x_s2_0\""),
        "leaf-huge" => replace_nth_token(t, is_leaf, pick(rng, nleaf), "\"x_s2_4000000000\""),
        "leaf-overflow" => replace_nth_token(t, is_leaf, pick(rng, nleaf), "\"x_s2_99999999999999999999999999\""),
        "no-closing-brace" => t.rfind('}').map(|p| format!("{}{}", &t[..p], &t[p + 1..])),
        "no-opening-brace" => t.find("]\n{").map(|p| format!("{}]\n{}", &t[..p], &t[p + 3..])),
        "state-text" => t.find("{*}[").map(|p| format!("{}{{*}}[abc{}", &t[..p], &t[p + 5..])),
        "state-negative" => t.find("{*}[").map(|p| format!("{}{{*}}[-{}", &t[..p], &t[p + 4..])),
        "state-overflow" => t.find("{*}[").map(|p| format!("{}{{*}}[99999999999999999999999{}", &t[..p], &t[p + 5..])),
        "pattern-tag" => t.find("{*}").map(|p| format!("{}{{x}}{}", &t[..p], &t[p + 3..])),
        "requote" => {
            // flip the quoting of one leaf
            let n = pick(rng, nleaf);
            let mut i = 0;
            let mut res = None;
            for tok in t.split([' ', '\n']).filter(|x| !x.is_empty()) {
                if is_leaf(tok) {
                    if i == n {
                        let new = if tok.starts_with('"') { tok.trim_matches('"').to_string() } else { format!("\"{}\"", tok) };
                        res = replace_nth_token(t, is_leaf, n, &new);
                        break;
                    }
                    i += 1;
                }
            }
            res
        }
        "unbalanced-quote" => replace_nth_token(t, is_leaf, pick(rng, nleaf), "\"x_s2_1"),
        "bad-pattern-char" => t.find("{ \"").map(|p| format!("{}{{ \"~{}", &t[..p], &t[p + 3..])),
        "pattern-byte-to-structure" => {
            // one byte of a question pattern (the first after its opening quote, or any other)
            // becomes a character that has a meaning in the list syntax
            let b = t.as_bytes();
            let qs: Vec<usize> = (0..b.len().saturating_sub(2))
                .filter(|&i| b[i] == b'"' && i > 0 && (b[i - 1] == b' ' || b[i - 1] == b',') && b[i + 1].is_ascii_graphic() && b[i + 1] != b'"')
                .collect();
            if qs.is_empty() || !t.contains("QS ") {
                None
            } else {
                let at = *rng.pick(&qs) + 1 + if rng.chance(0.3) { 1 } else { 0 };
                let mut v = b.to_vec();
                if at < v.len() && v[at] != b'\n' {
                    v[at] = *rng.pick(&[b',', b'"', b' ', b'}', b'{', b',']);
                    String::from_utf8(v).ok()
                } else {
                    None
                }
            }
        }
        "empty-pattern-list" => t.find("{ \"").and_then(|p| t[p..].find('}').map(|e| format!("{}{{ {}", &t[..p], &t[p + e..]))),
        "tokens-swapped" => {
            let lines: Vec<&str> = t.lines().collect();
            let cand: Vec<usize> = lines.iter().enumerate().filter(|(_, l)| l.split_whitespace().count() == 4).map(|(i, _)| i).collect();
            if cand.is_empty() {
                None
            } else {
                let li = *rng.pick(&cand);
                let toks: Vec<&str> = lines[li].split_whitespace().collect();
                let mut l2: Vec<String> = lines.iter().map(|s| s.to_string()).collect();
                l2[li] = format!(" {} {} {} {} ", toks[1], toks[0], toks[3], toks[2]);
                Some(l2.join("\n") + "\n")
            }
        }
        "single-node-to-node" => t.find("{*}[").and_then(|p| t[p..].find(']').map(|e| format!("{}{}\n   -1\n", &t[..p], &t[p..p + e + 1]))),
        "empty-section" => Some(String::new()),
        "trees-only-whitespace" => Some("  \n \n".to_string()),
        "qs-no-braces" => t.find(" { ").map(|p| format!("{} {}", &t[..p], &t[p + 3..])),
        "node-id-text" => replace_nth_token(t, is_nodeid, 0, "zero"),
        "extra-token" => {
            let lines: Vec<&str> = t.lines().collect();
            let cand: Vec<usize> = lines.iter().enumerate().filter(|(_, l)| l.split_whitespace().count() == 4).map(|(i, _)| i).collect();
            cand.first().map(|li| {
                let mut l2: Vec<String> = lines.iter().map(|s| s.to_string()).collect();
                l2[*li] = format!("{} extra", l2[*li]);
                l2.join("\n") + "\n"
            })
        }
        "missing-token" => {
            let lines: Vec<&str> = t.lines().collect();
            let cand: Vec<usize> = lines.iter().enumerate().filter(|(_, l)| l.split_whitespace().count() == 4).map(|(i, _)| i).collect();
            cand.first().map(|li| {
                let toks: Vec<&str> = lines[*li].split_whitespace().collect();
                let mut l2: Vec<String> = lines.iter().map(|s| s.to_string()).collect();
                l2[*li] = format!(" {} {} {} ", toks[0], toks[1], toks[2]);
                l2.join("\n") + "\n"
            })
        }
        "crlf" => Some(t.replace('\n', "\r\n")),
        "tree-body-emptied" => t.find("]\n{\n").and_then(|p| t[p..].find("}\n").map(|e| format!("{}]\n{{\n{}", &t[..p], &t[p + e..]))),
        "tree-body-blanked" => t.find("]\n{\n").and_then(|p| {
            t[p..].find("}\n").map(|e| {
                let body: String = t[p + 4..p + e].chars().map(|c| if c == '\n' { '\n' } else { ' ' }).collect();
                format!("{}{}{}", &t[..p + 4], body, &t[p + e..])
            })
        }),
        "tree-body-first-line-only" => t.find("]\n{\n").and_then(|p| {
            t[p..].find("}\n").and_then(|e| t[p + 4..p + e].find('\n').map(|l| format!("{}{}", &t[..p + 4 + l + 1], &t[p + e..])))
        }),
        "tree-duplicated" => t.find("{*}[").map(|p| {
            let end = t[p + 1..].find("{*}[").map(|e| p + 1 + e).unwrap_or(t.len());
            format!("{}{}{}", &t[..end], &t[p..end], &t[end..])
        }),
        "tree-deleted" => t.find("{*}[").map(|p| {
            let end = t[p + 1..].find("{*}[").map(|e| p + 1 + e).unwrap_or(t.len());
            format!("{}{}", &t[..p], &t[end..])
        }),
        "questions-only" => t.find("{*}[").map(|p| t[..p].to_string()),
        "all-quotes-removed" => Some(t.replace('"', "")),
        "non-utf8" | "nul-byte" => None,
        _ => None,
    };
    match m {
        "non-utf8" | "nul-byte" => {
            let mut b = t.as_bytes().to_vec();
            if b.is_empty() {
                return (b, false);
            }
            let o = rng.below(b.len());
            b[o] = if m == "non-utf8" { 0xFF } else { 0 };
            (b, true)
        }
        _ => match r {
            Some(s) => {
                let changed = s != t;
                (s.into_bytes(), changed)
            }
            None => (t.as_bytes().to_vec(), false),
        },
    }
}

#[derive(Debug)]
pub struct Outcome {
    pub kind: String, // "Ok" | "Err:<class>" | panic signature
    pub peak: usize,
    pub largest: usize,
}

fn err_class(e: &str) -> String {
    // first words of the error message, digits stripped: a coarse, stable class
    let s = crate::ctx::normalise(e);
    s.chars().take(48).collect()
}

/// Load the bytes as a voice; Ok / Err / panic + heap usage.
pub fn load_outcome(dir: &std::path::Path, bytes: &[u8]) -> (Outcome, Option<crate::ctx::PanicRecord>) {
    let p = dir.join("fault.htsvoice");
    std::fs::write(&p, bytes).expect("write fault file");
    let base = alloc::begin();
    let r = guard(|| Engine::load(&[&p]));
    let (peak, largest) = alloc::end(base);
    match r {
        Ok(Ok(_)) => (Outcome { kind: "Ok".into(), peak, largest }, None),
        Ok(Err(e)) => (Outcome { kind: format!("Err:{}", err_class(&format!("{}", e))), peak, largest }, None),
        Err(p) => (Outcome { kind: p.sig(), peak, largest }, Some(p)),
    }
}

fn judge(ctx: &mut Ctx, dir: &std::path::Path, f: &Fault, clean_kind: &str, voice: &str) {
    let (o, panic) = load_outcome(dir, &f.bytes);
    ctx.count("faults_loaded", 1.0);
    ctx.rep.evaluations += 1;
    ctx.count(&format!("class[{}]", f.class), 1.0);
    let d = |extra: J| {
        J::obj()
            .set("voice", voice)
            .set("fault_class", f.class)
            .set("section", f.section.clone())
            .set("fault", f.descr.clone())
            .set("file_bytes", f.bytes.len())
            .set("observed", extra)
    };
    if let Some(p) = panic {
        if p.in_target() {
            ctx.setadd("panic_sites", &format!("{}:{}", p.file, crate::ctx::normalise(&p.msg)));
            ctx.violation(&p.sig(), d(J::obj().set("panic", format!("{}:{} {}", p.file, p.line, p.msg))));
        } else {
            ctx.inconclusive(&format!("harness panic {}:{} {}", p.file, p.line, p.msg));
        }
        return;
    }
    let bound = 64 * f.bytes.len() + (16 << 20);
    ctx.max("worst_peak_heap_over_file_size", o.peak as f64 / f.bytes.len().max(1) as f64);
    ctx.max("worst_peak_heap_bytes", o.peak as f64);
    if o.peak > bound {
        ctx.violation("heap-not-bounded-by-input", d(J::obj().set("peak_heap_bytes", o.peak).set("largest_request", o.largest).set("bound", bound)));
        return;
    }
    if o.kind == "Ok" {
        ctx.count("loaded_ok", 1.0);
    } else {
        ctx.count("returned_err", 1.0);
        ctx.setadd("error_classes", &o.kind);
    }
    if o.kind != clean_kind {
        ctx.nontrivial(mix(&[hash_str(f.class), hash_str(&f.section), hash_str(&o.kind)]));
    }
    if ctx.want_sample() {
        ctx.sample(d(J::obj().set("result", o.kind.clone()).set("peak_heap_bytes", o.peak)));
    }
}

fn set_rlimit() {
    if std::env::var("JBV_NO_RLIMIT").is_ok() {
        return;
    }
    unsafe {
        let lim = libc::rlimit { rlim_cur: 4 << 30, rlim_max: 4 << 30 };
        libc::setrlimit(libc::RLIMIT_AS, &lim);
    }
}

/// interpreter-sized campaign (Miri): a tiny generated voice, every 9th systematic fault
fn miri_faults(ctx: &mut Ctx) {
    let pool = crate::voicegen::QuestionPool::builtin();
    let mut rng = Rng::new(5);
    let mut o = VoiceOpts::tiny();
    o.max_depth = 2;
    o.nstreams = 3;
    o.lpf_len = 3;
    let spec = voicegen::generate(&o, &pool, &mut rng);
    let bytes = voicegen::write(&spec);
    let mut faults = byte_faults(&bytes, &mut rng, 6, 9);
    faults.extend(text_faults(&spec, &mut rng, 5));
    let dir = crate::env::tmp_base().join(format!("jbv-miri-c18-{}-{}", std::process::id(), ctx.shard));
    std::fs::create_dir_all(&dir).expect("tmp dir");
    let (clean, _) = load_outcome(&dir, &bytes);
    if clean.kind != "Ok" {
        ctx.violation("clean-generated-voice-does-not-load", J::obj().set("result", clean.kind));
        return;
    }
    let n = faults.len();
    ctx.run_cases("miri-faults", n, true, |ctx, _rng, idx| {
        ctx.rep.evaluations -= 1;
        judge(ctx, &dir, &faults[idx], "Ok", "tiny");
    });
    let _ = std::fs::remove_dir_all(&dir);
}

pub fn run(ctx: &mut Ctx) {
    if std::env::var("JBV_MIRI").is_ok() {
        miri_faults(ctx);
        return;
    }
    set_rlimit();
    let env = Env::new(ctx);
    let q = ctx.quick();

    // ---- generated voices: all systematic single faults + structural text faults
    let nvoices = ctx.n(48, 400);
    ctx.run_cases("generated", nvoices, false, |ctx, rng, idx| {
        let mut o = VoiceOpts::random(rng);
        if idx % 3 == 0 {
            o.max_depth = o.max_depth.max(2);
        }
        let spec = voicegen::generate(&o, &env.pool, rng);
        let bytes = voicegen::write(&spec);
        let (clean, _) = load_outcome(&env.tmp_dir, &bytes);
        if clean.kind != "Ok" {
            ctx.violation("clean-generated-voice-does-not-load", J::obj().set("opts", o.describe()).set("result", clean.kind));
            return;
        }
        let voice = format!("generated[{}]", o.describe());
        let mut faults = byte_faults(&bytes, rng, if q { 40 } else { 120 }, 1);
        faults.extend(text_faults(&spec, rng, 1));
        // sampled double faults: a second byte-level fault on top of a first
        let nd = if q { 30 } else { 150 };
        for _ in 0..nd {
            let f1 = rng.below(faults.len());
            let first = faults[f1].bytes.clone();
            if first.len() < 16 {
                continue;
            }
            let thin2 = 37 + rng.below(11);
            let mut second = byte_faults(&first, rng, 2, thin2);
            if second.is_empty() {
                continue;
            }
            let pick = rng.below(second.len());
            let mut f2 = second.swap_remove(pick);
            f2.descr = format!("{} THEN {}", faults[f1].descr, f2.descr);
            f2.class = "double";
            faults.push(f2);
        }
        ctx.count("fault_instances_generated", faults.len() as f64);
        for f in &faults {
            judge(ctx, &env.tmp_dir, f, "Ok", &voice);
        }
    });

    // ---- the bundled voice: thinned systematic faults (each case writes and parses 1.1 MB)
    let chunks = ctx.n(16, 160);
    let thin = if q { 9 } else { 1 };
    let mut r0 = Rng::new(1234);
    let all = byte_faults(&env.bundled_bytes, &mut r0, if q { 40 } else { 400 }, thin);
    let per = all.len().div_ceil(chunks);
    ctx.run_cases("bundled", chunks, true, |ctx, _rng, idx| {
        let lo = (idx * per).min(all.len());
        let hi = ((idx + 1) * per).min(all.len());
        for f in &all[lo..hi] {
            judge(ctx, &env.tmp_dir, f, "Ok", "bundled");
        }
        ctx.count("fault_instances_generated", (hi - lo) as f64);
    });

    // ---- arbitrary byte sequences that are not voices at all
    let n = ctx.n(200, 20000);
    ctx.run_cases("garbage", n, false, |ctx, rng, idx| {
        let len = match idx % 4 {
            0 => 0,
            1 => rng.range(1, 64),
            _ => rng.range(64, 4096),
        };
        let mut bytes: Vec<u8> = (0..len).map(|_| rng.next_u64() as u8).collect();
        if idx % 3 == 0 && len > 40 {
            // looks like a header for a while
            let head = b"[GLOBAL]\nHTS_VOICE_VERSION:1.0\n[STREAM]\n[POSITION]\n[DATA]\n";
            let n = head.len().min(bytes.len());
            bytes[..n].copy_from_slice(&head[..n]);
        }
        let f = Fault { class: "garbage", section: "ALL".into(), descr: format!("{} random bytes", len), bytes };
        judge(ctx, &env.tmp_dir, &f, "Ok", "none");
    });
}
