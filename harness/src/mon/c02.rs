//! C02 — incremental generation equals one-shot synthesis (sequential reference model).

use crate::ctx::{guard, Ctx};
use crate::env::{Cond, Env};
use crate::json::J;
use crate::labels::to_strings;
use crate::mon::c01::load_synthetic;
use crate::rng::{hash_str, mix, Rng};
use crate::voicegen::VoiceOpts;
use jbonsai::Engine;
use jlabel::Label;

#[derive(Clone, Copy, Debug, PartialEq)]
pub enum Op {
    Step(usize), // buffer length
    Frames,
    Finish,
}

const SENTINEL: f64 = 7.25e77;

fn bits_eq(a: &[f64], b: &[f64]) -> bool {
    a.len() == b.len() && a.iter().zip(b).all(|(x, y)| x.to_bits() == y.to_bits())
}

/// Drive one history against the sequential model (cursor k over the reference waveform W).
/// Returns (violation signature, detail) on the first disagreement.
pub fn run_history(engine: &Engine, labels: &[Label], w: &[f64], ops: &[Op]) -> Result<(usize, bool), (String, J)> {
    let g = engine.generator(labels.to_vec()).map_err(|e| ("generator-err".to_string(), J::from(format!("{}", e))))?;
    run_history_on(engine, g, w, ops)
}

/// the same for a generator that was opened by the caller (from lines, with alignment, ...)
pub fn run_history_on(engine: &Engine, mut g: jbonsai::speech::SpeechGenerator, w: &[f64], ops: &[Op]) -> Result<(usize, bool), (String, J)> {
    let fp = engine.condition.get_fperiod();
    let f = w.len() / fp;
    if g.fperiod() != fp {
        return Err(("fperiod-accessor".into(), J::obj().set("got", g.fperiod()).set("expected", fp)));
    }
    let mut k = 0usize;
    let mut mid_finish = false;
    for (i, op) in ops.iter().enumerate() {
        match *op {
            Op::Step(len) => {
                let mut buf = vec![SENTINEL; len];
                let r = g.generate_step(&mut buf);
                if k < f {
                    if r != fp {
                        return Err(("step-return-value".into(), J::obj().set("op", i).set("returned", r).set("expected", fp).set("cursor", k)));
                    }
                    if !bits_eq(&buf[..fp], &w[k * fp..(k + 1) * fp]) {
                        let at = (0..fp).find(|j| buf[*j].to_bits() != w[k * fp + j].to_bits()).unwrap();
                        return Err((
                            "chunk-differs-from-one-shot".into(),
                            J::obj().set("op", i).set("frame", k).set("sample_in_frame", at).set("got", buf[at]).set("expected", w[k * fp + at]),
                        ));
                    }
                    k += 1;
                } else {
                    if r != 0 {
                        return Err(("exhausted-step-returns-nonzero".into(), J::obj().set("op", i).set("returned", r)));
                    }
                    if buf.iter().any(|x| x.to_bits() != SENTINEL.to_bits()) {
                        return Err(("exhausted-step-writes".into(), J::obj().set("op", i)));
                    }
                }
            }
            Op::Frames => {
                let r = g.synthesized_frames();
                if r != k {
                    return Err(("frames-produced-query".into(), J::obj().set("op", i).set("returned", r).set("expected", k)));
                }
            }
            Op::Finish => {
                if k > 0 && k < f {
                    mid_finish = true;
                }
                let rest = g.generate_all();
                if !bits_eq(&rest, &w[k * fp..]) {
                    return Err((
                        "finish-is-not-the-remaining-suffix".into(),
                        J::obj().set("op", i).set("cursor", k).set("returned_len", rest.len()).set("expected_len", w.len() - k * fp),
                    ));
                }
                return Ok((k, mid_finish));
            }
        }
    }
    Ok((k, mid_finish))
}

fn ops_json(ops: &[Op]) -> J {
    J::Arr(
        ops.iter()
            .map(|o| match o {
                Op::Step(n) => J::Str(format!("step({})", n)),
                Op::Frames => J::Str("frames".into()),
                Op::Finish => J::Str("finish".into()),
            })
            .collect(),
    )
}

fn check_history(ctx: &mut Ctx, engine: &Engine, labels: &[Label], w: &[f64], ops: &[Op], descr: &str) {
    let r = guard(|| run_history(engine, labels, w, ops));
    let fp = engine.condition.get_fperiod();
    let detail = |d: J| {
        J::obj()
            .set("voice", descr)
            .set("frames_total", w.len() / fp.max(1))
            .set("fperiod", fp)
            .set("history", ops_json(ops))
            .set("labels", J::Arr(to_strings(labels).into_iter().take(4).map(J::Str).collect()))
            .set("observed", d)
    };
    match r {
        Err(p) => {
            if p.in_target() {
                ctx.violation(&p.sig(), detail(J::obj().set("panic", format!("{}:{} {}", p.file, p.line, p.msg))));
            } else {
                ctx.inconclusive(&format!("harness panic {}:{} {}", p.file, p.line, p.msg));
            }
        }
        Ok(Err((sig, d))) => ctx.violation(&sig, detail(d)),
        Ok(Ok((k, mid))) => {
            ctx.count("histories_ok", 1.0);
            ctx.count("ops", ops.len() as f64);
            let sizes: std::collections::BTreeSet<usize> = ops.iter().filter_map(|o| if let Op::Step(n) = o { Some(*n) } else { None }).collect();
            let has_step = ops.iter().any(|o| matches!(o, Op::Step(_)));
            if (has_step && mid) || sizes.len() >= 2 {
                let h = hash_str(&format!("{:?}", ops));
                ctx.nontrivial(mix(&[hash_str(descr), (w.len() / fp.max(1)) as u64, h]));
            }
            if mid {
                ctx.count("finish_mid_stream", 1.0);
            }
            if ctx.want_sample() {
                ctx.sample(detail(J::obj().set("cursor_at_end", k)));
            }
        }
    }
}

/// decode history number `code` over the 5-letter alphabet (terminates at finish)
fn decode(mut code: usize, len: usize, fp: usize) -> Vec<Op> {
    let mut ops = Vec::new();
    for _ in 0..len {
        let d = code % 5;
        code /= 5;
        let op = match d {
            0 => Op::Step(fp),
            1 => Op::Step(2 * fp),
            2 => Op::Step(3 * fp - 1),
            3 => Op::Frames,
            _ => Op::Finish,
        };
        ops.push(op);
        if op == Op::Finish {
            break;
        }
    }
    ops
}

pub fn run(ctx: &mut Ctx) {
    let env = Env::new(ctx);
    let q = ctx.quick();

    // ---- exhaustive: tiny voices with F = 0..5 frames, every history up to the bound
    let maxlen = if q { 5 } else { 7 };
    let mut tiny_rng = Rng::new(0x7151);
    let mut tiny = VoiceOpts::tiny();
    tiny.dur_scale = 0.05; // every state lasts exactly one frame
    let (tiny_engine, _) = load_synthetic(&env, &tiny, &mut tiny_rng).expect("tiny voice loads");
    let fp = tiny_engine.condition.get_fperiod();
    let per_f = 5usize.pow(maxlen as u32);
    let mut refs: Vec<(Vec<Label>, Vec<f64>)> = Vec::new();
    for f in 0..=5usize {
        let labels: Vec<Label> = env.corpus.labels[10..10 + f].to_vec();
        let w = tiny_engine.synthesize(labels.clone()).expect("tiny synth");
        refs.push((labels, w));
    }
    let frames_ok = refs.iter().enumerate().all(|(f, (_, w))| w.len() == f * fp);
    if !frames_ok {
        ctx.inconclusive("tiny voice does not give one frame per label; exhaustive part not meaningful");
    }
    ctx.run_cases("exhaustive", 6 * per_f, true, |ctx, _rng, idx| {
        let f = idx / per_f;
        let code = idx % per_f;
        let ops = decode(code, maxlen, fp);
        // canonical representative only: skip codes whose digits after a finish are non-zero
        let mut c = code;
        let mut seen_finish = false;
        let mut canonical = true;
        for _ in 0..maxlen {
            let d = c % 5;
            c /= 5;
            if seen_finish && d != 0 {
                canonical = false;
            }
            if d == 4 {
                seen_finish = true;
            }
        }
        if !canonical {
            ctx.rep.evaluations -= 1;
            return;
        }
        let (labels, w) = &refs[f];
        check_history(ctx, &tiny_engine, labels, w, &ops, "tiny");
    });

    // ---- random long histories on real and generated voices
    let bundled = env.load_bundled();
    let n = ctx.n(200, 3000);
    ctx.run_cases("random", n, false, |ctx, rng, idx| {
        let (engine, descr): (Engine, String) = if idx % 2 == 0 {
            (bundled.clone(), "bundled".into())
        } else {
            let o = VoiceOpts::random(rng);
            match load_synthetic(&env, &o, rng) {
                Ok((e, _)) => (e, format!("synthetic[{}]", o.describe())),
                Err(e) => {
                    ctx.inconclusive(&e);
                    return;
                }
            }
        };
        let mut engine = engine;
        let cond = Cond::random(rng, engine.voices.global_metadata().num_streams, false);
        cond.apply(&mut engine);
        if cond.fperiod.is_none() && rng.chance(0.5) {
            engine.condition.set_fperiod(rng.range(1, 64));
        }
        // one case in eight: speeds at the far ends of what the setter accepts, on a short
        // utterance (one-shot and step-wise generation must agree there as well)
        let extreme_speed = idx % 8 == 5;
        if extreme_speed {
            engine.condition.set_speed(*rng.pick(&[0.05, 0.08, 0.099, 20.0, 50.0]));
            engine.condition.set_phoneme_alignment_flag(false);
        }
        // one case in sixteen: a long utterance stepped for hundreds of frames before the finish
        let long_run = idx % 16 == 9 && !extreme_speed;
        let labels = if extreme_speed {
            env.corpus.random_utterance(rng, 1, 2)
        } else if long_run {
            let nl = rng.range(14, 24);
            env.corpus.utterance(rng, nl, 0)
        } else {
            env.corpus.random_utterance(rng, 1, if q { 6 } else { 30 })
        };
        let w = match guard(|| engine.synthesize(labels.clone())) {
            Ok(Ok(w)) => w,
            Ok(Err(e)) => {
                ctx.violation("reference-synthesis-err", J::from(format!("{}", e)));
                return;
            }
            Err(p) => {
                ctx.violation(&p.sig(), J::obj().set("what", "one-shot synthesis panicked").set("voice", descr.clone()));
                return;
            }
        };
        let fp = engine.condition.get_fperiod();
        let f = w.len() / fp;
        for _ in 0..3 {
            let cut = if long_run && f > 300 {
                *rng.pick(&[257usize, 300, f - 1, f, f + 1])
            } else {
                match rng.below(4) {
                    0 => 0,
                    1 => f,
                    2 => f + 2,
                    _ => rng.below(f + 1),
                }
            };
            let mut ops = Vec::new();
            for _ in 0..cut {
                if rng.chance(0.1) {
                    ops.push(Op::Frames);
                }
                ops.push(Op::Step(rng.range(fp, 3 * fp)));
            }
            ops.push(Op::Frames);
            if rng.chance(0.8) {
                ops.push(Op::Finish);
            }
            check_history(ctx, &engine, &labels, &w, &ops, &descr);
        }
        ctx.count("reference_frames", f as f64);
    });

    // ---- phoneme alignment on: the utterance is handed over as lines (time-stamped, partly
    // stamped, or without any time while the speed is not 1), to synthesize() and to generator()
    // alike; the one-shot waveform is the concatenation of the steps there as well
    let n = ctx.n(120, 2000);
    ctx.run_cases("aligned", n, false, |ctx, rng, idx| {
        let (engine, descr): (Engine, String) = if idx % 2 == 0 {
            (bundled.clone(), "bundled".into())
        } else {
            let o = VoiceOpts::random(rng);
            match load_synthetic(&env, &o, rng) {
                Ok((e, _)) => (e, format!("synthetic[{}]", o.describe())),
                Err(e) => {
                    ctx.inconclusive(&e);
                    return;
                }
            }
        };
        let mut engine = engine;
        let cond = Cond::random(rng, engine.voices.global_metadata().num_streams, false);
        cond.apply(&mut engine);
        engine.condition.set_phoneme_alignment_flag(true);
        if idx % 3 == 0 {
            engine.condition.set_speed(*rng.pick(&[0.5, 1.3, 2.0, 0.77, 3.1]));
        }
        let labels = env.corpus.random_utterance(rng, 1, if q { 6 } else { 20 });
        let rate = engine.condition.get_sampling_frequency();
        let fp = engine.condition.get_fperiod();
        let nstate = engine.voices.global_metadata().num_states;
        let unit = fp as f64 * 1e7 / rate as f64;
        let lines: Vec<String> = match idx % 4 {
            // no time at all
            0 => to_strings(&labels),
            // every label stamped; the last one (or a random one) shorter than its states
            1 | 2 => {
                let mut t = 0.0f64;
                let short = if idx % 4 == 1 { labels.len() - 1 } else { rng.below(labels.len()) };
                labels
                    .iter()
                    .enumerate()
                    .map(|(i, l)| {
                        let frames = if i == short { rng.range(0, nstate.max(2) - 1) as f64 + 0.4 } else { rng.range(nstate, 30) as f64 };
                        let s = t;
                        t += frames * unit;
                        format!("{} {} {}", s.round() as u64, t.round() as u64, l)
                    })
                    .collect()
            }
            _ => crate::mon::c01::annotate(rng, &labels, rate, fp),
        };
        let w = match guard(|| engine.synthesize(lines.clone())) {
            Ok(Ok(w)) => w,
            Ok(Err(e)) => {
                ctx.violation("reference-synthesis-err", J::from(format!("{}", e)));
                return;
            }
            Err(p) => {
                ctx.violation(&p.sig(), J::obj().set("what", "one-shot synthesis panicked").set("voice", descr.clone()));
                return;
            }
        };
        let f = w.len() / fp;
        for round in 0..2 {
            let cut = match (round, rng.below(3)) {
                (0, _) => f + 1,
                (_, 0) => 0,
                _ => rng.below(f + 1),
            };
            let mut ops = Vec::new();
            for _ in 0..cut {
                ops.push(Op::Step(rng.range(fp, 2 * fp)));
            }
            ops.push(Op::Frames);
            ops.push(Op::Finish);
            let r = guard(|| match engine.generator(lines.clone()) {
                Ok(g) => run_history_on(&engine, g, &w, &ops),
                Err(e) => Err(("generator-err".to_string(), J::from(format!("{}", e)))),
            });
            let detail = |d: J| {
                J::obj()
                    .set("voice", descr.clone())
                    .set("frames_total", f)
                    .set("fperiod", fp)
                    .set("speed", engine.condition.get_speed())
                    .set("alignment", true)
                    .set("lines", J::Arr(lines.iter().take(4).map(|l| J::Str(l.clone())).collect()))
                    .set("history", ops_json(&ops))
                    .set("observed", d)
            };
            match r {
                Err(p) => {
                    if p.in_target() {
                        ctx.violation(&p.sig(), detail(J::obj().set("panic", format!("{}:{} {}", p.file, p.line, p.msg))));
                    } else {
                        ctx.inconclusive(&format!("harness panic {}:{} {}", p.file, p.line, p.msg));
                    }
                    return;
                }
                Ok(Err((sig, d))) => {
                    ctx.violation(&sig, detail(d));
                    return;
                }
                Ok(Ok(_)) => {
                    ctx.count("aligned_histories_ok", 1.0);
                }
            }
        }
        ctx.nontrivial(mix(&[0xa11, hash_str(&descr), f as u64, (idx % 4) as u64]));
    });
}
