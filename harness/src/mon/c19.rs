//! C19 — voice sets and interpolation weights are validated.

use crate::ctx::Ctx;
use crate::env::{dyadic_weights, engine_from_voices, Env};
use crate::json::{fvec, J};
use crate::rng::{hash_str, mix, Rng};
use crate::voicegen::{self, VoiceOpts};
use jbonsai::model::voice::question::Question;
use jbonsai::model::{load_htsvoice_file, Voice, VoiceSet};
use jbonsai::Engine;
use jlabel::Label;
use std::sync::Arc;

const NFIELDS: usize = 17;

/// one single-field metadata mutation; returns the field's name
fn mutate(v: &mut Voice, field: usize, rng: &mut Rng, stream_hint: usize) -> &'static str {
    let ns = v.stream_models.len();
    // (the stream is chosen by the list shape, so that every stream is hit over the six shapes)
    let _ = rng.below(ns);
    let s = stream_hint % ns;
    match field {
        0 => {
            v.metadata.sampling_frequency += 1;
            "sampling_frequency"
        }
        1 => {
            v.metadata.frame_period += 1;
            "frame_period"
        }
        2 => {
            v.metadata.num_states += 1;
            "num_states"
        }
        3 => {
            v.metadata.num_streams += 1;
            "num_streams"
        }
        4 => {
            v.metadata.stream_type[s].push('X');
            "stream_type"
        }
        5 => {
            v.metadata.fullcontext_format.push('2');
            "fullcontext_format"
        }
        6 => {
            v.metadata.fullcontext_version.push('1');
            "fullcontext_version"
        }
        7 => {
            v.metadata.hts_voice_version.push('1');
            "hts_voice_version"
        }
        8 => {
            v.metadata.gv_off_context = Question::parse(&["*-sil+*"]).unwrap();
            "gv_off_context"
        }
        9 => {
            v.stream_models[s].metadata.vector_length += 1;
            "vector_length"
        }
        10 => {
            v.stream_models[s].metadata.num_windows += 1;
            "num_windows"
        }
        11 => {
            v.stream_models[s].metadata.is_msd ^= true;
            "is_msd"
        }
        12 => {
            v.stream_models[s].metadata.use_gv ^= true;
            "use_gv"
        }
        13 => {
            v.stream_models[s].metadata.option.push("ALPHA=0.1".into());
            "option"
        }
        15 => {
            // the same option strings, one of them twice (the list is a list, not a set)
            let o = &mut v.stream_models[0].metadata.option;
            if o.is_empty() {
                o.push("ALPHA=0.25".into());
            } else {
                let dup = o[0].clone();
                o.push(dup);
            }
            "option (duplicated entry)"
        }
        16 => {
            // the same option strings in another order (with two ALPHA entries the order decides)
            let o = &mut v.stream_models[0].metadata.option;
            o.reverse();
            if o.len() >= 2 && o.iter().eq(o.iter().rev()) {
                o.swap(0, 1); // (a palindrome: swap two neighbours instead)
            }
            "option (reordered)"
        }
        _ => {
            // the last stream only (a comparison that stops one stream early misses it)
            v.stream_models[ns - 1].metadata.vector_length += 2;
            "vector_length(last stream)"
        }
    }
}

#[derive(Clone, Debug)]
enum Upd {
    Duration(Vec<f64>),
    Parameter(usize, Vec<f64>),
    Gv(usize, Vec<f64>),
}

#[derive(Clone, Copy, Debug, PartialEq)]
enum Class {
    MustAccept,
    MustReject,
    Grey,
}

fn classify(w: &[f64], nv: usize) -> Class {
    let sum: f64 = w.iter().sum();
    if w.len() != nv || sum.is_nan() || (sum - 1.0).abs() >= 1e-6 {
        Class::MustReject
    } else if sum == 1.0 {
        Class::MustAccept
    } else {
        Class::Grey
    }
}

fn weight_vector(rng: &mut Rng, nv: usize, kind: usize) -> Vec<f64> {
    match kind {
        0 => dyadic_weights(rng, nv, false),
        1 => dyadic_weights(rng, nv, true),
        2 => dyadic_weights(rng, nv + 1, false), // wrong length (too long), sums to 1
        3 => {
            if nv > 1 {
                dyadic_weights(rng, nv - 1, false) // too short, sums to 1
            } else {
                vec![]
            }
        }
        4 => {
            let mut w = dyadic_weights(rng, nv, false);
            w[0] += *rng.pick(&[1e-6, -1e-6, 2e-6, 0.5, -1.0, 1e-3]);
            w
        }
        5 => {
            let mut w = dyadic_weights(rng, nv, false);
            // (half of the time the NaN stands where a zero weight would have been valid: the
            // other components sum to one on their own)
            let zeros: Vec<usize> = (0..nv).filter(|i| w[*i] == 0.0).collect();
            let i = if !zeros.is_empty() {
                *rng.pick(&zeros)
            } else if nv >= 2 && rng.chance(0.5) {
                let i = rng.below(nv);
                let j = (i + 1) % nv;
                w[j] += w[i];
                i
            } else {
                rng.below(nv)
            };
            w[i] = f64::NAN;
            w
        }
        _ => {
            // grey zone: off by less than 1e-6
            let mut w = dyadic_weights(rng, nv, false);
            w[0] += *rng.pick(&[1e-9, -1e-9, 3e-7, 1e-12]);
            w
        }
    }
}

struct State {
    duration: Vec<f64>,
    parameter: Vec<Vec<f64>>,
    gv: Vec<Vec<f64>>,
}

fn getters(e: &Engine, ns: usize) -> State {
    let iw = e.condition.get_interporation_weight();
    State {
        duration: iw.get_duration().to_vec(),
        parameter: (0..ns).map(|i| iw.get_parameter(i).to_vec()).collect(),
        gv: (0..ns).map(|i| iw.get_gv(i).to_vec()).collect(),
    }
}

fn veq(a: &[f64], b: &[f64]) -> bool {
    a.len() == b.len() && a.iter().zip(b).all(|(x, y)| x.to_bits() == y.to_bits())
}

fn state_eq(a: &State, b: &State) -> bool {
    veq(&a.duration, &b.duration)
        && a.parameter.len() == b.parameter.len()
        && a.parameter.iter().zip(&b.parameter).all(|(x, y)| veq(x, y))
        && a.gv.iter().zip(&b.gv).all(|(x, y)| veq(x, y))
}

/// run a history of updates against the reference state machine
fn run_history(ctx: &mut Ctx, engine: &Engine, labels: &[Label], updates: &[Upd], descr: &str) {
    let nv = engine.voices.len();
    let ns = engine.voices.global_metadata().num_streams;
    let mut e = engine.clone();
    let mut model = getters(&e, ns);
    // defaults: equal weights
    let eq = 1.0 / nv as f64;
    if model.duration.iter().any(|w| *w != eq) || model.parameter.iter().flatten().any(|w| *w != eq) || model.gv.iter().flatten().any(|w| *w != eq) {
        ctx.violation("default-weights-not-equal", J::obj().set("voices", nv).set("duration", fvec(&model.duration, 8)));
        return;
    }
    let mut wave = match e.synthesize(labels.to_vec()) {
        Ok(w) => w,
        Err(er) => {
            ctx.violation("synthesize-err", J::from(format!("{}", er)));
            return;
        }
    };
    let mut log: Vec<String> = Vec::new();
    let mut rejected = 0;
    let mut accepted = 0;
    for u in updates {
        let (w, res, name) = {
            let iw = e.condition.get_interporation_weight_mut();
            match u {
                Upd::Duration(w) => (w.clone(), iw.set_duration(w).is_ok(), "duration".to_string()),
                Upd::Parameter(i, w) => (w.clone(), iw.set_parameter(*i, w).is_ok(), format!("parameter[{}]", i)),
                Upd::Gv(i, w) => (w.clone(), iw.set_gv(*i, w).is_ok(), format!("gv[{}]", i)),
            }
        };
        let class = classify(&w, nv);
        log.push(format!("{} <- {:?} ({:?}) => {}", name, w, class, if res { "Ok" } else { "Err" }));
        let d = |extra: J| J::obj().set("voices", descr).set("history", J::from(log.clone())).set("observed", extra);
        match (class, res) {
            (Class::MustReject, true) => {
                ctx.violation("invalid-weights-accepted", d(J::Null));
                return;
            }
            (Class::MustAccept, false) => {
                ctx.violation("valid-weights-rejected", d(J::Null));
                return;
            }
            _ => {}
        }
        if res {
            accepted += 1;
            match u {
                Upd::Duration(w) => model.duration = w.clone(),
                Upd::Parameter(i, w) => model.parameter[*i] = w.clone(),
                Upd::Gv(i, w) => model.gv[*i] = w.clone(),
            }
        } else {
            rejected += 1;
        }
        let now = getters(&e, ns);
        if !state_eq(&now, &model) {
            ctx.violation(if res { "accepted-update-not-in-force" } else { "rejected-update-changed-the-weights" }, d(J::obj().set("duration", fvec(&now.duration, 8))));
            return;
        }
        // synthesis after the update
        let w2 = match e.synthesize(labels.to_vec()) {
            Ok(w) => w,
            Err(er) => {
                ctx.violation("synthesize-err", d(J::from(format!("{}", er))));
                return;
            }
        };
        if !res {
            if !veq(&w2, &wave) {
                ctx.violation("rejected-update-changed-the-waveform", d(J::obj().set("len_before", wave.len()).set("len_after", w2.len())));
                return;
            }
        }
        wave = w2;
        ctx.count("updates", 1.0);
        // wrong-length vectors *derived from the weights in force* in the slot just addressed
        // (the vector extended by one component, cut by one, and the empty one): all rejected,
        // nothing changes
        let cur: Vec<f64> = match u {
            Upd::Duration(_) => model.duration.clone(),
            Upd::Parameter(i, _) => model.parameter[*i].clone(),
            Upd::Gv(i, _) => model.gv[*i].clone(),
        };
        let mut probes: Vec<Vec<f64>> = vec![vec![]];
        let mut ext = cur.clone();
        ext.push(0.0);
        probes.push(ext);
        let mut ext = cur.clone();
        ext.push(0.25);
        probes.push(ext);
        if cur.len() > 1 {
            probes.push(cur[..cur.len() - 1].to_vec());
        }
        for pr in probes {
            let ok = {
                let iw = e.condition.get_interporation_weight_mut();
                match u {
                    Upd::Duration(_) => iw.set_duration(&pr).is_ok(),
                    Upd::Parameter(i, _) => iw.set_parameter(*i, &pr).is_ok(),
                    Upd::Gv(i, _) => iw.set_gv(*i, &pr).is_ok(),
                }
            };
            ctx.count("derived_wrong_length_probes", 1.0);
            if ok {
                log.push(format!("{} <- {:?} (wrong length, derived from the weights in force) => Ok", name, pr));
                ctx.violation("invalid-weights-accepted", J::obj().set("voices", descr).set("history", J::from(log.clone())));
                return;
            }
            if !state_eq(&getters(&e, ns), &model) {
                ctx.violation("rejected-update-changed-the-weights", J::obj().set("voices", descr).set("history", J::from(log.clone())));
                return;
            }
        }
    }
    // final: a fresh engine given only the effective weights renders the same waveform
    if let Ok(mut fresh) = engine_from_voices(engine.voices.iter().cloned().collect()) {
        let iw = fresh.condition.get_interporation_weight_mut();
        let mut ok = iw.set_duration(&model.duration).is_ok();
        for i in 0..ns {
            ok &= iw.set_parameter(i, &model.parameter[i]).is_ok();
            ok &= iw.set_gv(i, &model.gv[i]).is_ok();
        }
        if ok {
            if let Ok(w3) = fresh.synthesize(labels.to_vec()) {
                if !veq(&w3, &wave) {
                    ctx.violation(
                        "history-of-updates-differs-from-fresh-engine-with-effective-weights",
                        J::obj().set("voices", descr).set("history", J::from(log.clone())),
                    );
                    return;
                }
                ctx.count("fresh_engine_comparisons", 1.0);
            }
        }
    }
    // final, independent of how the engine mixes its voices: the effective weights are in
    // force in what is handed to synthesis — the engine's own model view (public `Models`) gives
    // the weighted sums of the voices' own entries, for the duration and for every stream
    if nv >= 2 && accepted >= 1 {
        let within = |got: f64, terms: &[f64]| -> bool {
            let want: f64 = terms.iter().sum();
            let scale: f64 = terms.iter().map(|t| t.abs()).sum();
            (got - want).abs() <= 8.0 * f64::EPSILON * scale + f64::MIN_POSITIVE
        };
        let nstate = e.voices.global_metadata().num_states;
        let voices: Vec<_> = e.voices.iter().cloned().collect();
        let models = jbonsai::model::Models::new(labels, &e.voices, e.condition.get_interporation_weight());
        let dur = models.duration();
        let mut bad: Option<String> = None;
        'outer: for (li, l) in labels.iter().enumerate() {
            let per: Vec<_> = voices.iter().map(|v| v.duration_model.get_parameter(2, l).parameters.clone()).collect();
            for st in 0..nstate {
                let got = dur[li * nstate + st];
                let tm: Vec<f64> = (0..nv).map(|v| model.duration[v] * per[v][st].0).collect();
                let tv: Vec<f64> = (0..nv).map(|v| model.duration[v] * per[v][st].1).collect();
                if !within(got.0, &tm) || !within(got.1, &tv) {
                    bad = Some(format!("duration of label {} state {}: {:?}, weighted mean {}", li, st, got, tm.iter().sum::<f64>()));
                    break 'outer;
                }
            }
            for si in 0..ns {
                let ms = models.model_stream(si);
                for st in 0..nstate {
                    let per: Vec<_> = voices.iter().map(|v| v.stream_models[si].stream_model.get_parameter(st + 2, l).clone()).collect();
                    let (g, _) = &ms.stream[li * nstate + st];
                    for (k, mv) in g.iter().enumerate() {
                        let tm: Vec<f64> = (0..nv).map(|v| model.parameter[si][v] * per[v].parameters[k].0).collect();
                        let tv: Vec<f64> = (0..nv).map(|v| model.parameter[si][v] * per[v].parameters[k].1).collect();
                        if !within(mv.0, &tm) || !within(mv.1, &tv) {
                            bad = Some(format!("stream {} label {} state {} component {}: {:?}, weighted mean {}", si, li, st, k, mv, tm.iter().sum::<f64>()));
                            break 'outer;
                        }
                    }
                }
            }
        }
        ctx.count("in_force_at_the_model_view_checks", 1.0);
        if let Some(what) = bad {
            ctx.violation("accepted-weights-not-in-force-at-synthesis", J::obj().set("voices", descr).set("history", J::from(log.clone())).set("observed", what));
            return;
        }
    }
    if rejected >= 1 && accepted >= 1 {
        ctx.nontrivial(mix(&[hash_str(descr), hash_str(&log.join(";"))]));
    }
    if ctx.want_sample() {
        ctx.sample(J::obj().set("voices", descr).set("history", J::from(log)));
    }
}

fn small_set(env: &Env, rng: &mut Rng, nv: usize) -> Result<(Engine, String), String> {
    let mut o = VoiceOpts::random(rng);
    o.mcp_len = o.mcp_len.min(5);
    o.fperiod = 20;
    let mut voices = Vec::new();
    for _ in 0..nv {
        let spec = voicegen::generate(&o, &env.pool, rng);
        let bytes = voicegen::write(&spec);
        let p = env.voice_file(&bytes);
        let v = load_htsvoice_file(&p).map_err(|e| format!("{}", e))?;
        env.remove(&p);
        voices.push(Arc::new(v));
    }
    Ok((engine_from_voices(voices)?, format!("{}x generated[{}]", nv, o.describe())))
}

pub fn run(ctx: &mut Ctx) {
    let env = Env::new(ctx);
    let bundled = Arc::new(load_htsvoice_file(&env.bundled_path).expect("bundled loads"));

    // ---- metadata validation: every single-field difference, the odd one in every position
    ctx.run_cases("metadata", NFIELDS * 6, true, |ctx, rng, idx| {
        let field = idx % NFIELDS;
        let shape = idx / NFIELDS; // 0,1: pairs; 2..4: triples; 5: quadruple (odd one last)
        let base: Arc<Voice> = if idx % 2 == 0 {
            bundled.clone()
        } else {
            let o = VoiceOpts::random(rng);
            let spec = voicegen::generate(&o, &env.pool, rng);
            let p = env.voice_file(&voicegen::write(&spec));
            let v = load_htsvoice_file(&p);
            env.remove(&p);
            match v {
                Ok(v) => Arc::new(v),
                Err(_) => bundled.clone(),
            }
        };
        // (for the reordering the common voice itself needs at least two option strings)
        let base: Arc<Voice> = if field == 16 && base.stream_models[0].metadata.option.len() < 2 {
            let mut b = (*base).clone();
            b.stream_models[0].metadata.option.push("ALPHA=0.25".into());
            b.stream_models[0].metadata.option.push("ALPHA=0.5".into());
            Arc::new(b)
        } else {
            base
        };
        // one case in five on a four-stream copy of the common voice (the last stream doubled)
        let base: Arc<Voice> = if idx % 5 == 4 && base.stream_models.len() == base.metadata.num_streams && base.metadata.stream_type.len() == base.metadata.num_streams {
            let mut b = (*base).clone();
            let last = b.stream_models.last().unwrap().clone();
            b.stream_models.push(last);
            let t = format!("{}2", b.metadata.stream_type.last().unwrap());
            b.metadata.stream_type.push(t);
            b.metadata.num_streams += 1;
            ctx.count("four_stream_voice_lists", 1.0);
            Arc::new(b)
        } else {
            base
        };
        let mut odd = (*base).clone();
        let name = mutate(&mut odd, field, rng, shape);
        let odd = Arc::new(odd);
        let (list, pos): (Vec<Arc<Voice>>, usize) = match shape {
            0 => (vec![base.clone(), odd.clone()], 1),
            1 => (vec![odd.clone(), base.clone()], 0),
            2 => (vec![odd.clone(), base.clone(), base.clone()], 0),
            3 => (vec![base.clone(), odd.clone(), base.clone()], 1),
            4 => (vec![base.clone(), base.clone(), odd.clone()], 2),
            _ => (vec![base.clone(), base.clone(), base.clone(), odd.clone()], 3),
        };
        ctx.count("voice_lists_checked", 1.0);
        if VoiceSet::new(list.clone()).is_ok() {
            ctx.violation("incompatible-voices-combined", J::obj().set("field", name).set("voices", list.len()).set("odd_one_at", pos));
        }
        // the same list without the odd one is fine
        let clean: Vec<Arc<Voice>> = list.iter().map(|_| base.clone()).collect();
        if VoiceSet::new(clean).is_err() {
            ctx.violation("compatible-voices-rejected", J::obj().set("voices", list.len()));
        }
        ctx.nontrivial(mix(&[1, field as u64, shape as u64, (idx % 2) as u64]));
        if ctx.want_sample() {
            ctx.sample(J::obj().set("field", name).set("voices", list.len()).set("odd_one_at", pos));
        }
    });
    ctx.run_cases("empty", 1, true, |ctx, _rng, _| {
        if VoiceSet::new(vec![]).is_ok() {
            ctx.violation("empty-voice-list-accepted", J::Null);
        }
        let none: [&str; 0] = [];
        if Engine::load(&none).is_ok() {
            ctx.violation("engine-load-of-empty-list-accepted", J::Null);
        }
    });
    // differing stream counts (a voice with one stream model fewer)
    ctx.run_cases("stream-count", 2, true, |ctx, _rng, idx| {
        let mut odd = (*bundled).clone();
        odd.stream_models.pop();
        let list = if idx == 0 { vec![bundled.clone(), Arc::new(odd)] } else { vec![Arc::new(odd), bundled.clone()] };
        if VoiceSet::new(list).is_ok() {
            ctx.violation("incompatible-voices-combined", J::obj().set("field", "number of stream models"));
        }
    });

    // ---- weight histories, exhaustive up to length 3 over a 7-letter alphabet (2 voices)
    let mut r0 = Rng::new(4242);
    let (e2, d2) = small_set(&env, &mut r0, 2).expect("2-voice set");
    let labels2: Vec<Label> = env.corpus.labels[20..23].to_vec();
    let alphabet: Vec<Upd> = vec![
        Upd::Duration(vec![0.75, 0.25]),
        Upd::Duration(vec![0.5, 0.25, 0.25]),
        Upd::Duration(vec![0.75, 0.5]),
        Upd::Parameter(1, vec![0.25, 0.75]),
        Upd::Parameter(0, vec![f64::NAN, 1.0]),
        Upd::Gv(0, vec![1.5, -0.5]),
        Upd::Gv(1, vec![0.5, 0.5 + 1e-6]),
    ];
    let total = 7 + 49 + 343;
    ctx.run_cases("weights-exhaustive", total, true, |ctx, _rng, idx| {
        let (len, mut code) = if idx < 7 { (1, idx) } else if idx < 56 { (2, idx - 7) } else { (3, idx - 56) };
        let mut ups = Vec::new();
        for _ in 0..len {
            ups.push(alphabet[code % 7].clone());
            code /= 7;
        }
        run_history(ctx, &e2, &labels2, &ups, &d2);
    });

    // ---- voice *files* that differ in one stream option only (an entry the engine itself
    // does not interpret included): loading them together is an error
    ctx.run_cases("file-options", 24, true, |ctx, rng, idx| {
        let o = VoiceOpts::random(rng);
        let spec = voicegen::generate(&o, &env.pool, rng);
        let mut other = spec.clone();
        let si = idx % other.streams.len();
        let extra = ["NORMALIZE=1", "XYZ=2", "ALPHA=0.123", "comment"][(idx / 3) % 4];
        match (idx / 12) % 2 {
            0 => other.streams[si].options.push(extra.to_string()),
            _ => other.streams[si].options.insert(0, extra.to_string()),
        }
        let pa = env.voice_file(&voicegen::write(&spec));
        let pb = env.voice_file(&voicegen::write(&other));
        let alone = Engine::load(&[&pb]).is_ok();
        let lists: [Vec<&std::path::PathBuf>; 3] = [vec![&pa, &pb], vec![&pb, &pa], vec![&pa, &pa, &pb]];
        for l in lists.iter() {
            if !alone {
                break; // (the extra entry made the file itself unloadable: nothing to combine)
            }
            ctx.count("voice_file_lists_checked", 1.0);
            if Engine::load(l).is_ok() {
                ctx.violation("incompatible-voices-combined", J::obj().set("field", format!("option entry {:?} in the file of one voice (stream {})", extra, si)).set("voices", l.len()));
                break;
            }
        }
        if Engine::load(&[&pa, &pa]).is_err() {
            ctx.violation("compatible-voices-rejected", J::obj().set("voices", 2));
        }
        env.remove(&pa);
        env.remove(&pb);
        ctx.nontrivial(mix(&[5, idx as u64]));
    });

    // ---- voice files that differ in the GV flag of one stream only (the GV data and its
    // positions are still in the file of the voice that switches it off)
    ctx.run_cases("file-gv-flag", 4, true, |ctx, _rng, idx| {
        let name = ["LF0", "MCP"][idx % 2];
        let old = format!("USE_GV[{}]:1\n", name);
        let Some(at) = env.bundled_bytes.windows(old.len()).position(|w| w == old.as_bytes()) else {
            ctx.inconclusive("bundled voice header has no USE_GV line of the expected form");
            return;
        };
        let mut bytes = env.bundled_bytes.clone();
        bytes[at + old.len() - 2] = b'0';
        let pb = env.voice_file(&bytes);
        let pa = env.bundled_path.clone();
        if Engine::load(&[&pb]).is_ok() {
            let lists: [Vec<&std::path::PathBuf>; 3] = [vec![&pa, &pb], vec![&pb, &pa], vec![&pa, &pa, &pb]];
            let l = &lists[(idx / 2) % 3];
            for l in [l, &lists[(idx / 2 + 1) % 3]] {
                ctx.count("voice_file_lists_checked", 1.0);
                if Engine::load(l).is_ok() {
                    ctx.violation("incompatible-voices-combined", J::obj().set("field", format!("USE_GV[{}] differs between the voice files", name)).set("voices", l.len()));
                    break;
                }
            }
        } else {
            ctx.count("gv_flag_variant_does_not_load_alone", 1.0);
        }
        env.remove(&pb);
        ctx.nontrivial(mix(&[6, idx as u64]));
    });

    // ---- random histories on 1..4 voice engines
    let n = ctx.n(160, 20000);
    ctx.run_cases("weights-random", n, false, |ctx, rng, idx| {
        // (a single voice too: there the one weight vector [1.0] is the only acceptable one)
        let nv = if idx % 5 == 2 { 1 } else { rng.range(2, 4) };
        let (e, d) = if idx % 10 == 0 {
            let mut voices = vec![bundled.clone()];
            for _ in 1..nv.min(2) {
                let s = rng.uniform(0.1, 0.4);
                let bytes = voicegen::perturb(&env.bundled_bytes, rng, s);
                let p = env.voice_file(&bytes);
                let v = load_htsvoice_file(&p);
                env.remove(&p);
                match v {
                    Ok(v) => voices.push(Arc::new(v)),
                    Err(_) => return,
                }
            }
            match engine_from_voices(voices) {
                Ok(e) => (e, "bundled+perturbed".to_string()),
                Err(er) => {
                    ctx.violation("engine-construction", J::from(er));
                    return;
                }
            }
        } else {
            match small_set(&env, rng, nv) {
                Ok(x) => x,
                Err(er) => {
                    ctx.inconclusive(&er);
                    return;
                }
            }
        };
        // one case in three: the engine's condition has been loaded before, for a voice set of
        // another size (its first voice alone, or its first two), and is loaded again for this one
        let (e, d) = if idx % 3 == 1 {
            let k = if e.voices.len() > 2 && rng.chance(0.5) { 2 } else { 1 };
            let first: Vec<Arc<jbonsai::model::Voice>> = e.voices.iter().take(k).cloned().collect();
            let mut c = jbonsai::Condition::default();
            let ok = jbonsai::model::VoiceSet::new(first).ok().map(|vs| c.load_model(&vs).is_ok()).unwrap_or(false);
            if k == 2 {
                let _ = c.get_interporation_weight_mut().set_duration(&[0.25, 0.75]);
            }
            if !ok || c.load_model(&e.voices).is_err() {
                ctx.violation("engine-construction", J::from("condition loaded for a smaller voice set first"));
                return;
            }
            ctx.count("conditions_loaded_twice", 1.0);
            (Engine::new(e.voices.clone(), c), format!("{} (condition first loaded for its first {} voice(s))", d, k))
        } else {
            (e, d)
        };
        let nv = e.voices.len();
        let ns = e.voices.global_metadata().num_streams;
        let labels = env.corpus.random_utterance(rng, 1, 4);
        let len = rng.range(1, 12);
        let ups: Vec<Upd> = (0..len)
            .map(|_| {
                let kind = rng.below(7);
                let w = weight_vector(rng, nv, kind);
                match rng.below(3) {
                    0 => Upd::Duration(w),
                    1 => Upd::Parameter(rng.below(ns), w),
                    _ => Upd::Gv(rng.below(ns), w),
                }
            })
            .collect();
        run_history(ctx, &e, &labels, &ups, &d);
    });
}
