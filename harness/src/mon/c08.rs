//! C08 — speaking rate scales the utterance, never below one frame per state.

use crate::ctx::Ctx;
use crate::env::Env;
use crate::json::J;
use crate::rng::{mix, Rng};
use crate::synth::{dur_speed1, ref_label, total_at_speed, trajectories};
use jbonsai::duration::DurationEstimator;
use jbonsai::model::MeanVari;

fn speeds(rng: &mut Rng, f1: usize) -> Vec<f64> {
    let mut v = vec![1.0, 1.0 + 1e-9, 1.0 - 1e-9, 0.1, 50.0, 0.25, 4.0, 2.0, 0.5, 8.0];
    // close to, but not, 1: the total must still follow round(F1/s)
    v.push(1.0 + *rng.pick(&[1e-3, -1e-3, 9e-4, -9e-4, 5e-4, -5e-4, 1e-4, -1e-4, 2e-3, -2e-3]));
    v.push(1.0 + rng.uniform(-3e-3, 3e-3));
    for _ in 0..6 {
        v.push(rng.log_uniform(0.1, 50.0));
    }
    // exact ratios that land on x.5 targets: F1 / s = k + 0.5
    if f1 > 2 {
        let k = rng.range(1, 2 * f1) as f64 + 0.5;
        v.push(f1 as f64 / k);
    }
    v
}

pub fn run(ctx: &mut Ctx) {
    let n = ctx.n(12000, 400000);
    ctx.run_cases("estimator", n, false, |ctx, rng, idx| {
        let nstate = rng.range(1, 7);
        let nlab = rng.range(1, (200 / nstate).max(1));
        // (one case in eight: a sequence that is not a whole number of labels — the number of
        // states per label only matters to the aligned path)
        let nst = if idx % 8 == 5 { (nstate * nlab + rng.range(1, 6)).min(200) } else { nstate * nlab };
        let heavy = idx % 40 == 7 || idx % 40 == 8;
        let nst = if heavy { rng.range(170, 200) } else { nst };
        // (kinds 7 and 8 are expensive: one case in twenty)
        let kind = if idx % 40 == 7 { 7 } else if idx % 40 == 8 { 8 } else { idx % 7 };
        let proto = MeanVari(rng.uniform(0.2, 60.0), rng.log_uniform(1e-3, 400.0));
        let params: Vec<MeanVari> = (0..nst)
            .map(|_| match kind {
                0 => proto, // identical Gaussians: every adjustment is an equal-cost tie
                1 => MeanVari(rng.uniform(0.2, 3.0), rng.log_uniform(1e-3, 1.0)),
                2 => MeanVari((rng.range(1, 30) as f64) + 0.5, rng.log_uniform(1e-3, 400.0)), // x.5 means
                5 => MeanVari(rng.uniform(0.2, 1.45), rng.log_uniform(1e-3, 2.0)), // every state lasts one frame at speed 1
                // means a hair below / above a rounding tie (far more than f64 rounding, less
                // than single precision resolves)
                6 => MeanVari((rng.range(0, 60) as f64 + 0.5) * (1.0 + *rng.pick(&[-1e-9, -1e-8, -3e-8, 1e-8, -2e-10, 3e-8])), rng.log_uniform(1e-3, 400.0)),
                // long means with a bimodal variance profile: almost every state rigid, a few
                // very loose ones (the first estimate then overshoots by thousands of frames)
                7 => MeanVari(rng.uniform(52.0, 60.0), if rng.chance(0.04) { 400.0 } else { 1e-3 }),
                // long means throughout (with slow speeds: targets above a hundred thousand frames)
                8 => MeanVari(rng.uniform(50.0, 60.0), rng.log_uniform(1e-3, 400.0)),
                _ => MeanVari(rng.uniform(0.2, 60.0), rng.log_uniform(1e-3, 400.0)),
            })
            .collect();
        let est = DurationEstimator::new(params.clone(), nstate);
        let d1 = est.create(1.0);
        let descr = |extra: J| {
            J::obj()
                .set("nstate", nstate)
                .set("states", nst)
                .set("kind", kind)
                .set("params_head", J::Arr(params.iter().take(6).map(|p| J::Arr(vec![J::Num(p.0), J::Num(p.1)])).collect()))
                .set("observed", extra)
        };
        if d1.len() != nst {
            ctx.violation("duration-count", descr(J::obj().set("len", d1.len())));
            return;
        }
        for (i, (d, p)) in d1.iter().zip(&params).enumerate() {
            let (want, amb) = dur_speed1(p.0);
            let ok = *d == want || (amb && (*d + 1 == want || *d == want + 1));
            if !ok {
                ctx.violation("speed1-law", descr(J::obj().set("state", i).set("mean", p.0).set("got", *d).set("expected", want)));
                return;
            }
        }
        let f1: usize = d1.iter().sum();
        let mut pts: Vec<(f64, usize)> = Vec::new();
        let mut nontrivial = false;
        let mut sp = speeds(rng, f1);
        if kind == 7 {
            for _ in 0..3 {
                sp.push(rng.uniform(5.0, 14.0));
            }
        }
        if kind == 8 {
            sp.push(0.1);
            sp.push(rng.uniform(0.1, 0.125));
        }
        // targets a little above one frame per state (n < target < 1.5 n)
        for _ in 0..3 {
            sp.push(f1 as f64 / (nst as f64 * rng.uniform(1.02, 1.5)));
        }
        // speeds whose quotient F1/s lies within a few ulps of a rounding tie k + 0.5 (on either
        // side of it, and on it): the law is about round(F1/s), not about round(F1 * (1/s))
        for _ in 0..4 {
            let k = rng.range(nst, (4 * nst).max(nst + 8)) as f64 + 0.5;
            let s0 = f1 as f64 / k;
            let j = rng.irange(-3, 3);
            let s = f64::from_bits((s0.to_bits() as i64 + j) as u64);
            if s > 0.0 && s.is_finite() {
                sp.push(s);
            }
            // two-decimal speeds, as a user would type them
            sp.push((rng.range(10, 999) as f64) / 100.0);
        }
        for s in sp {
            let d = est.create(s);
            // the same estimator asked again gives the same per-state durations (equal-cost
            // ties are broken the same way every time)
            if est.create(s) != d {
                ctx.violation("durations-differ-between-two-calls", descr(J::obj().set("speed", s)));
                return;
            }
            let total: usize = d.iter().sum();
            if d.len() != nst {
                ctx.violation("duration-count", descr(J::obj().set("speed", s).set("len", d.len())));
                return;
            }
            if d.iter().any(|x| *x == 0) {
                ctx.violation("state-below-one-frame", descr(J::obj().set("speed", s)));
                return;
            }
            let (want, amb) = total_at_speed(f1, s, nst);
            let ok = total == want
                || (amb && (total + 1 == want || total == want + 1) && total >= nst);
            if !ok {
                ctx.violation("total-length-law", descr(J::obj().set("speed", s).set("f1", f1).set("got", total).set("expected", want)));
                return;
            }
            if !amb {
                pts.push((s, total));
            }
            if want > nst && s != 1.0 {
                nontrivial = true;
            }
            ctx.count("speed_evaluations", 1.0);
        }
        pts.sort_by(|a, b| a.0.total_cmp(&b.0));
        for w in pts.windows(2) {
            if w[1].1 > w[0].1 {
                ctx.violation(
                    "length-not-monotone-in-speed",
                    descr(J::obj().set("s_lo", w[0].0).set("len_lo", w[0].1).set("s_hi", w[1].0).set("len_hi", w[1].1)),
                );
                return;
            }
        }
        if nontrivial {
            ctx.nontrivial(mix(&[nst as u64, kind as u64, f1 as u64, (proto.0 * 1000.0) as u64]));
        }
        if ctx.want_sample() {
            ctx.sample(descr(J::obj().set("f1", f1).set("speed_points", J::Arr(pts.iter().take(6).map(|(s, t)| J::Arr(vec![J::Num(*s), J::from(*t)])).collect()))));
        }
    });

    // end to end on the bundled voice: synthesize length / fperiod and hooked durations
    let env = Env::new(ctx);
    let bundled = env.load_bundled();
    let n = ctx.n(120, 3000);
    ctx.run_cases("end-to-end", n, false, |ctx, rng, idx| {
        // (one case in three: pause-dominated utterances of 1..2 labels — long states, the only
        // utterances on which speeds above 10 are not already on the one-frame-per-state floor)
        let pauses = idx % 3 == 2;
        let labels = if pauses {
            let mut v = vec![env.corpus.silence_label(rng)];
            if rng.chance(0.5) {
                v.push(if rng.chance(0.5) { env.corpus.silence_label(rng) } else { rng.pick(&env.corpus.labels).clone() });
            }
            v
        } else {
            env.corpus.random_utterance(rng, 1, 12)
        };
        let nst = labels.len() * bundled.voices.global_metadata().num_states;
        // reference F1 from the file
        let mut f1 = 0usize;
        let mut amb = false;
        for l in &labels {
            match ref_label(&env.bundled_ref, &l.to_string()) {
                Ok(rl) => {
                    for (m, _) in &rl.dur {
                        let (d, a) = dur_speed1(*m);
                        f1 += d;
                        amb |= a;
                    }
                }
                Err(e) => {
                    ctx.inconclusive(&format!("reference reader: {}", e));
                    return;
                }
            }
        }
        if amb {
            return;
        }
        let mut prev: Option<(f64, usize)> = None;
        let mut grid: Vec<f64> = (0..5).map(|_| rng.log_uniform(0.25, 4.0)).collect();
        grid.push(1.0);
        if pauses {
            // the whole range of the quantifier, and two-decimal speeds near rounding ties
            grid.push(rng.log_uniform(0.1, 0.25));
            grid.push(rng.uniform(10.0, 50.0));
            grid.push(rng.uniform(10.0, 16.0));
            grid.push(50.0);
            grid.push(rng.range(1000, 2500) as f64 / 100.0);
        } else {
            grid.push(rng.range(10, 999) as f64 / 100.0);
        }
        grid.sort_by(|a, b| a.total_cmp(b));
        for (gi, s) in grid.into_iter().enumerate() {
            // one engine in four is put together by hand with the speed set on the condition
            // *before* the voice's defaults are loaded into it
            let mut e = if (idx + gi) % 4 == 3 {
                let mut c = jbonsai::Condition::default();
                c.set_speed(s);
                if c.load_model(&bundled.voices).is_err() {
                    ctx.violation("load-model-err", J::Null);
                    return;
                }
                jbonsai::Engine::new(bundled.voices.clone(), c)
            } else {
                let mut e = bundled.clone();
                e.condition.set_speed(s);
                e
            };
            let run = match trajectories(&e, labels.clone()) {
                Ok(r) => r,
                Err(er) => {
                    ctx.violation("synthesize-err", J::from(format!("{}", er)));
                    return;
                }
            };
            let total: usize = run.durations.iter().sum();
            if e.condition.get_speed() != s {
                ctx.violation("speed-not-stored", J::obj().set("set", s).set("get", e.condition.get_speed()));
            }
            let (want, a) = total_at_speed(f1, s, nst);
            // time stamps on the lines change nothing while alignment is off (every other case)
            let wave_len = if (idx + gi) % 2 == 0 {
                e.synthesize(labels.clone()).map(|w| w.len()).unwrap_or(usize::MAX)
            } else {
                // (zero-length segments and blank entries between the labels included; plain
                // lines as well; handed over as Vec<String>, &[String] or &[&str])
                let mut t = 0u64;
                let plain = rng.chance(0.3);
                let mut lines: Vec<String> = Vec::new();
                for l in labels.iter() {
                    if rng.chance(0.15) {
                        lines.push(String::new());
                    }
                    if plain {
                        lines.push(l.to_string());
                        continue;
                    }
                    let a = t;
                    if !rng.chance(0.2) {
                        t += rng.range(100_000, 2_000_000) as u64;
                    }
                    lines.push(format!("{} {} {}", a, t, l));
                }
                let r = match rng.below(3) {
                    0 => e.synthesize(lines),
                    1 => e.synthesize(&lines[..]),
                    _ => {
                        let refs: Vec<&str> = lines.iter().map(|x| x.as_str()).collect();
                        e.synthesize(&refs[..])
                    }
                };
                r.map(|w| w.len()).unwrap_or(usize::MAX)
            };
            if wave_len != total * e.condition.get_fperiod() {
                ctx.violation("length-not-frames-times-fperiod", J::obj().set("len", wave_len).set("frames", total));
            }
            if !a && total != want {
                ctx.violation(
                    "end-to-end-total-length-law",
                    J::obj().set("speed", s).set("f1", f1).set("got", total).set("expected", want).set("labels", labels.len()),
                );
                return;
            }
            if let Some((ps, pt)) = prev {
                if total > pt && !a {
                    ctx.violation("end-to-end-not-monotone", J::obj().set("s_lo", ps).set("s_hi", s).set("len_lo", pt).set("len_hi", total));
                }
            }
            if !a {
                prev = Some((s, total));
            }
            if want > nst && s != 1.0 {
                ctx.nontrivial(mix(&[0xe2e, f1 as u64, (s * 1e6) as u64]));
            }
            ctx.count("end_to_end_speed_evaluations", 1.0);
        }
    });
}
