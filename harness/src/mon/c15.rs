//! C15 — additional half tone transposes F0 and nothing else.

use crate::ctx::Ctx;
use crate::env::{Cond, Env};
use crate::json::J;
use crate::labels::to_strings;
use crate::rng::{hash_str, mix, Rng};
use crate::synth::{ref_label, run_with_hooks, trajectories, NODATA};
use crate::voicegen;
use crate::voiceread::{read_voice, RefVoice};
use jbonsai::Engine;

const HT: f64 = std::f64::consts::LN_2 / 12.0;
const MIN_LF0: f64 = 2.995_732_273_553_991;
const MAX_LF0: f64 = 9.903_487_552_536_127;

fn bits_eq2(a: &[Vec<f64>], b: &[Vec<f64>]) -> bool {
    a.len() == b.len() && a.iter().zip(b).all(|(x, y)| x.len() == y.len() && x.iter().zip(y).all(|(p, q)| p.to_bits() == q.to_bits()))
}

/// The listed finding: when the GV iterations start next to their fixed point, the step-size
/// control of the optimiser (exact comparisons of successive objective values) is decided by
/// rounding, and the contour at h differs from the transposed contour at 0 by up to 2e-7
/// (measured: up to 4.2e-6 over the band 1e-8..1e-3 of relative distance of the target from the variance; 2e-13 over 3103 cases in 1e-3..3e-2).
const NEAR_FIXED_POINT_SIG: &str = "f0-not-shifted-by-h-half-tones:gv-step-control-decided-by-rounding-next-to-the-fixed-point";
const NEAR_FIXED_POINT_BOUND: f64 = 1e-4;

fn one(ctx: &mut Ctx, env: &Env, rng: &mut Rng, base: &Engine, rv: &RefVoice, descr: &str, idx: usize) {
    let nstreams = base.voices.global_metadata().num_streams;
    let mut cond = Cond::random(rng, nstreams, false);
    cond.half_tone = None;
    if idx % 4 == 0 {
        // voice the (mean 0) unvoiced states as well: forces the clamp branch
        while cond.msd_threshold.len() < 2 {
            cond.msd_threshold.push(None);
        }
        cond.msd_threshold[1] = Some(0.01);
    }
    let mut e0 = base.clone();
    cond.apply(&mut e0);
    let h = match idx % 7 {
        0 => 0.0,
        1 => -0.0,
        2 => *rng.pick(&[24.0, -24.0, 12.0, -12.0, 1.0, -1.0]),
        3 => rng.irange(-24, 24) as f64,
        4 => *rng.pick(&[1e-7, -9e-7, 5e-7, -2e-6, 1e-3]),
        _ => rng.uniform(-24.0, 24.0),
    };
    let mut eh = e0.clone();
    eh.condition.set_additional_half_tone(h);
    if idx % 5 == 3 {
        // h is set on the condition *before* the voices' defaults are loaded into it
        let mut c = jbonsai::Condition::default();
        c.set_additional_half_tone(h);
        if c.load_model(&base.voices).is_err() {
            ctx.violation("load-model-err", J::from(descr));
            return;
        }
        eh = Engine::new(base.voices.clone(), c);
        cond.apply(&mut eh);
        ctx.count("half_tone_set_before_load_model", 1.0);
        if eh.condition.get_additional_half_tone() != h {
            ctx.violation("half-tone-lost-by-load_model", J::obj().set("voice", descr).set("h", h).set("got", eh.condition.get_additional_half_tone()));
            return;
        }
    }
    let labels = env.corpus.random_utterance(rng, 1, if ctx.quick() { 8 } else { 30 });
    let d = |extra: J| J::obj().set("voice", descr).set("h", h).set("cond", cond.to_json()).set("labels", J::Arr(to_strings(&labels).into_iter().take(3).map(J::Str).collect())).set("observed", extra);
    let (r0, rh) = match (trajectories(&e0, labels.clone()), trajectories(&eh, labels.clone())) {
        (Ok(a), Ok(b)) => (a, b),
        _ => {
            ctx.violation("synthesize-err", d(J::Null));
            return;
        }
    };
    // the engine applies the shift to the state means and then generates: the hooked
    // trajectories equal the public building blocks run stream by stream (this also holds when
    // the 20 Hz / 20 kHz limit is reached, and at h = 0 where nothing at all is applied)
    {
        let want = crate::synth::trajectories_from_public_api(&eh, &labels, &rh.durations);
        let got = [&rh.spectrum, &rh.lf0, &rh.lpf];
        for k in 0..nstreams.min(want.len()) {
            let dev = crate::synth::trajectory_deviation(got[k], &want[k]);
            if !(dev <= 1e-9) {
                ctx.violation(
                    "trajectory-is-not-the-generation-from-the-shifted-state-means",
                    d(J::obj().set("stream", k).set("deviation", dev)),
                );
                return;
            }
        }
        ctx.count("public_api_recomputations", 1.0);
    }
    // isolation clauses (always)
    if r0.durations != rh.durations {
        ctx.violation("half-tone-changed-durations", d(J::Null));
        return;
    }
    if !bits_eq2(&r0.spectrum, &rh.spectrum) {
        ctx.violation("half-tone-changed-spectrum", d(J::Null));
        return;
    }
    if !bits_eq2(&r0.lpf, &rh.lpf) {
        ctx.violation("half-tone-changed-low-pass", d(J::Null));
        return;
    }
    let m0: Vec<bool> = r0.lf0.iter().map(|f| f[0] != NODATA).collect();
    let mh: Vec<bool> = rh.lf0.iter().map(|f| f[0] != NODATA).collect();
    if m0 != mh {
        ctx.violation("half-tone-changed-voicing-pattern", d(J::Null));
        return;
    }
    if h == 0.0 {
        if !bits_eq2(&r0.lf0, &rh.lf0) {
            ctx.violation("h0-not-identity", d(J::Null));
        }
        // end to end as well
        if idx % 14 == 0 {
            if let (Ok(a), Ok(b)) = (run_with_hooks(&e0, labels.clone()), run_with_hooks(&eh, labels.clone())) {
                if a.wave.iter().map(|x| x.to_bits()).ne(b.wave.iter().map(|x| x.to_bits())) {
                    ctx.violation("h0-waveform-not-identical", d(J::Null));
                }
            }
        }
        ctx.count("identity_checks", 1.0);
        return;
    }
    // shift law, when no voiced state's shifted mean reaches the limits
    let thr = e0.condition.get_msd_threshold(1);
    let mut clamp_hit = false;
    for l in &labels {
        match ref_label(rv, &l.to_string()) {
            Ok(rl) => {
                for g in &rl.streams[1] {
                    let voiced = g.msd.unwrap_or(1.0) > thr;
                    let shifted = g.mean[0] + h * HT;
                    if voiced && (shifted <= MIN_LF0 || shifted >= MAX_LF0 || g.mean[0] <= MIN_LF0 || g.mean[0] >= MAX_LF0) {
                        clamp_hit = true;
                    }
                }
            }
            Err(e) => {
                ctx.inconclusive(&format!("reference: {}", e));
                return;
            }
        }
    }
    let nvoiced = m0.iter().filter(|b| **b).count();
    let mut near_fixed_point = false;
    // GV on a (numerically) constant log-F0 trajectory only rescales rounding noise; the
    // variance law has nothing to act on there, so the shift law is not judged (isolation still is)
    if base.voices.stream_metadata(1).use_gv && nvoiced > 0 {
        let vals: Vec<f64> = r0.lf0.iter().zip(&m0).filter(|(_, m)| **m).map(|(f, _)| f[0]).collect();
        let mean = vals.iter().sum::<f64>() / vals.len() as f64;
        let var = vals.iter().map(|x| (x - mean) * (x - mean)).sum::<f64>() / vals.len() as f64;
        if var < 1e-10 {
            ctx.count("degenerate_constant_f0_with_gv_skipped", 1.0);
            return;
        }
        // (the same when the trajectory is constant *before* the variance is restored, over the
        // frames that take part in the variance: the GV step then stretches rounding noise —
        // a variance of 1e-31 instead of 0 — to the target variance, see DESIGN 6.4)
        {
            use jbonsai::mlpg_adjust::MlpgAdjust;
            use jbonsai::model::Models;
            let models = Models::new(&labels, &e0.voices, e0.condition.get_interporation_weight());
            let mut ms = models.model_stream(1);
            let mut gv_target = None;
            let switch: Vec<bool> = match ms.gv.take() {
                Some((p, sw)) => {
                    gv_target = p.first().map(|m| m.0);
                    sw.iter().zip(&r0.durations).flat_map(|(s, d)| std::iter::repeat(*s).take(*d)).collect()
                }
                None => vec![true; m0.len()],
            };
            let ml = MlpgAdjust::new(0.0, thr, ms).create(&r0.durations);
            let vals: Vec<f64> = ml.iter().zip(&switch).filter(|(f, s)| **s && f[0] != NODATA).map(|(f, _)| f[0]).collect();
            if !vals.is_empty() {
                let mean = vals.iter().sum::<f64>() / vals.len() as f64;
                let var = vals.iter().map(|x| (x - mean) * (x - mean)).sum::<f64>() / vals.len() as f64;
                if var < 1e-10 {
                    ctx.count("degenerate_constant_f0_with_gv_skipped", 1.0);
                    return;
                }
                // the variance target within 0.3 % of the variance the contour already has: the
                // GV iterations start next to their fixed point (see `gv-near-fixed-point`)
                if let Some(t) = gv_target {
                    near_fixed_point = (t * e0.condition.get_gv_weight(1) / var - 1.0).abs() < 3e-3;
                }
            }
        }
    }
    if clamp_hit {
        ctx.count("clamp_branch_cases_isolation_only", 1.0);
        return;
    }
    let mut worst = 0.0f64;
    let mut at = 0;
    for (t, (a, b)) in r0.lf0.iter().zip(&rh.lf0).enumerate() {
        if !m0[t] {
            continue;
        }
        let e = ((b[0] - a[0]) - h * HT).abs();
        if e > worst || e.is_nan() {
            worst = e;
            at = t;
        }
    }
    ctx.max("worst_shift_error", worst);
    ctx.count("voiced_frames_checked", nvoiced as f64);
    if !(worst <= 1e-9) {
        if std::env::var("JBV_DEBUG").is_ok() {
            eprintln!("DBG lf0_0 {:?}", r0.lf0.iter().map(|f| f[0]).collect::<Vec<_>>());
            eprintln!("DBG lf0_h {:?}", rh.lf0.iter().map(|f| f[0]).collect::<Vec<_>>());
            eprintln!("DBG dur {:?}", r0.durations);
        }
        ctx.violation(
            if near_fixed_point && worst <= NEAR_FIXED_POINT_BOUND { NEAR_FIXED_POINT_SIG } else { "f0-not-shifted-by-h-half-tones" },
            d(J::obj().set("frame", at).set("lf0_at_0", r0.lf0[at][0]).set("lf0_at_h", rh.lf0[at][0]).set("expected_shift", h * HT).set("error", worst)),
        );
        return;
    }
    if nvoiced > 0 {
        ctx.nontrivial(mix(&[hash_str(descr), (h * 1000.0) as i64 as u64, hash_str(&to_strings(&labels).join("|"))]));
    }
    if ctx.want_sample() {
        ctx.sample(d(J::obj().set("voiced_frames", nvoiced).set("worst_shift_error", worst)));
    }
}

/// state-level law through the public API: mean' = limit(mean + h ln2/12, ln 20, ln 20000)
fn state_means(ctx: &mut Ctx, env: &Env, rng: &mut Rng, bundled: &Engine, idx: usize) {
    use jbonsai::model::{MeanVari, Models, StreamParameter};
    let h = match idx % 5 {
        0 => *rng.pick(&[24.0, -24.0, -23.5, 23.5, -23.25, 12.0, -12.0]),
        _ => rng.uniform(-24.0, 24.0),
    };
    let mut sp: StreamParameter = if idx % 2 == 0 {
        let labels = env.corpus.random_utterance(rng, 4, 30);
        let models = Models::new(&labels, &bundled.voices, bundled.condition.get_interporation_weight());
        models.model_stream(1).stream
    } else {
        // synthetic states incl. means close to both limits
        let n = rng.range(1, 40);
        StreamParameter::new(
            (0..n)
                .map(|_| {
                    let m = match rng.below(4) {
                        0 => rng.uniform(2.99, 3.4),
                        1 => rng.uniform(9.5, 9.91),
                        2 => 0.0,
                        _ => rng.uniform(3.5, 7.0),
                    };
                    (vec![MeanVari(m, rng.uniform(0.001, 0.1)), MeanVari(rng.uniform(-0.1, 0.1), 0.01), MeanVari(0.0, 0.01)], rng.f64())
                })
                .collect(),
        )
    };
    let before: Vec<(Vec<MeanVari>, f64)> = sp.to_vec();
    sp.apply_additional_half_tone(h);
    let mut limited = 0;
    for (i, ((b, bw), (a, aw))) in before.iter().zip(sp.iter()).enumerate() {
        let want = if h == 0.0 { b[0].0 } else { (b[0].0 + h * HT).clamp(MIN_LF0, MAX_LF0) };
        if want == MIN_LF0 || want == MAX_LF0 {
            limited += 1;
        }
        let same_rest = b.len() == a.len() && b.iter().zip(a.iter()).skip(1).all(|(x, y)| x == y) && b[0].1.to_bits() == a[0].1.to_bits() && bw.to_bits() == aw.to_bits();
        if !((a[0].0 - want).abs() <= 1e-12 * (1.0 + want.abs())) || !same_rest {
            ctx.violation(
                "state-mean-not-shifted-within-limits",
                J::obj().set("h", h).set("state", i).set("mean_before", b[0].0).set("mean_after", a[0].0).set("expected", want).set("other_components_untouched", same_rest),
            );
            return;
        }
    }
    ctx.count("state_means_checked", before.len() as f64);
    ctx.count("state_means_at_a_limit", limited as f64);
    if limited > 0 {
        ctx.nontrivial(mix(&[77, (h * 1000.0) as i64 as u64, before.len() as u64, limited as u64]));
    }
}

pub fn run(ctx: &mut Ctx) {
    let env = Env::new(ctx);
    let bundled = env.load_bundled();
    let n = ctx.n(400, 20000);
    ctx.run_cases("state-means", n, false, |ctx, rng, idx| {
        state_means(ctx, &env, rng, &bundled, idx);
    });
    let n = ctx.n(400, 8000);
    ctx.run_cases("bundled", n, false, |ctx, rng, idx| {
        one(ctx, &env, rng, &bundled, &env.bundled_ref, "bundled", idx);
    });
    let n = ctx.n(8, 500);
    ctx.run_cases("perturbed", n, false, |ctx, rng, idx| {
        let s = rng.uniform(0.05, 0.5);
        let bytes = voicegen::perturb(&env.bundled_bytes, rng, s);
        let Ok(rv) = read_voice(&bytes) else {
            ctx.inconclusive("reader on perturbed voice");
            return;
        };
        let p = env.voice_file(&bytes);
        let e = Engine::load(&[&p]);
        env.remove(&p);
        match e {
            Ok(e) => {
                for k in 0..4 {
                    one(ctx, &env, rng, &e, &rv, &format!("perturbed({:.2})", s), idx * 4 + k + 2);
                }
            }
            Err(e) => ctx.violation("perturbed-voice-does-not-load", J::from(format!("{}", e))),
        }
    });
    // the bundled voice with the MSD flag of its log-F0 stream cleared in the (public) stream
    // metadata: the flag only matters to the file parser, synthesis is sample-identical at
    // h = 0, and the half tone must transpose this voice like any other
    let n = ctx.n(24, 600);
    {
        use jbonsai::model::load_htsvoice_file;
        use std::sync::Arc;
        match load_htsvoice_file(&env.bundled_path) {
            Ok(mut v) => {
                v.stream_models[1].metadata.is_msd = false;
                match crate::env::engine_from_voices(vec![Arc::new(v)]) {
                    Ok(e) => {
                        ctx.run_cases("msd-flag-cleared", n, false, |ctx, rng, idx| {
                            one(ctx, &env, rng, &e, &env.bundled_ref, "bundled, LF0 metadata.is_msd = false", idx);
                        });
                    }
                    Err(_) => ctx.inconclusive("engine from the bundled voice with the MSD flag cleared"),
                }
            }
            Err(e) => ctx.inconclusive(&format!("bundled voice: {}", e)),
        }
    }
    // the GV weight chosen so that the variance target almost equals the variance the
    // trajectory has before the variance is restored: the GV iterations then start next to
    // their fixed point, where the unchanged optimiser's step-size control is decided by
    // rounding (the listed finding, bounded at 1e-4) and where anything else that depends on
    // the *level* of the contour shows as a larger deviation from the exact transposition
    let n = ctx.n(160, 4000);
    ctx.run_cases("gv-near-fixed-point", n, false, |ctx, rng, idx| {
        use jbonsai::mlpg_adjust::MlpgAdjust;
        use jbonsai::model::Models;
        let e = &bundled;
        let labels = env.corpus.random_utterance(rng, 2, if ctx.quick() { 10 } else { 30 });
        let Ok(r) = trajectories(e, labels.clone()) else { return };
        let thr = e.condition.get_msd_threshold(1);
        let models = Models::new(&labels, &e.voices, e.condition.get_interporation_weight());
        let mut ms = models.model_stream(1);
        let Some((gvp, sw)) = ms.gv.take() else { return };
        let switch: Vec<bool> = sw.iter().zip(&r.durations).flat_map(|(s, d)| std::iter::repeat(*s).take(*d)).collect();
        let ml = MlpgAdjust::new(0.0, thr, ms).create(&r.durations);
        let vals: Vec<f64> = ml.iter().zip(&switch).filter(|(f, s)| **s && f[0] != NODATA).map(|(f, _)| f[0]).collect();
        if vals.len() < 10 {
            ctx.count("too_few_voiced_frames_skipped", 1.0);
            return;
        }
        let mean = vals.iter().sum::<f64>() / vals.len() as f64;
        let var = vals.iter().map(|x| (x - mean) * (x - mean)).sum::<f64>() / vals.len() as f64;
        let delta = rng.log_uniform(1e-8, 1e-3) * if rng.chance(0.5) { 1.0 } else { -1.0 };
        let w = var / gvp[0].0 * (1.0 + delta);
        if !(w > 0.0 && w <= 2.0) || var < 1e-8 {
            ctx.count("weight_outside_its_range_skipped", 1.0);
            return;
        }
        let h = if idx % 3 == 0 { rng.irange(-24, 24) as f64 } else { rng.uniform(-24.0, 24.0) };
        if h.abs() < 0.5 {
            return;
        }
        let mut e0 = e.clone();
        e0.condition.set_gv_weight(1, w);
        let mut eh = e0.clone();
        eh.condition.set_additional_half_tone(h);
        let (Ok(r0), Ok(rh)) = (trajectories(&e0, labels.clone()), trajectories(&eh, labels.clone())) else {
            ctx.violation("synthesize-err", J::Null);
            return;
        };
        // (no voiced state near the limits)
        let lo = r0.lf0.iter().filter(|f| f[0] != NODATA).map(|f| f[0]).fold(f64::INFINITY, f64::min);
        let hi = r0.lf0.iter().filter(|f| f[0] != NODATA).map(|f| f[0]).fold(f64::NEG_INFINITY, f64::max);
        if lo + h * HT <= MIN_LF0 + 0.7 || hi + h * HT >= MAX_LF0 - 0.7 || lo <= MIN_LF0 + 0.7 {
            ctx.count("clamp_branch_cases_isolation_only", 1.0);
            return;
        }
        if r0.durations != rh.durations || r0.lf0.len() != rh.lf0.len() {
            ctx.violation("half-tone-changed-durations", J::Null);
            return;
        }
        let mut worst = 0.0f64;
        let mut at = 0;
        for (t, (a, b)) in r0.lf0.iter().zip(&rh.lf0).enumerate() {
            if (a[0] == NODATA) != (b[0] == NODATA) {
                ctx.violation("half-tone-changed-voicing-pattern", J::Null);
                return;
            }
            if a[0] == NODATA {
                continue;
            }
            let er = ((b[0] - a[0]) - h * HT).abs();
            if er > worst || er.is_nan() {
                worst = er;
                at = t;
            }
        }
        ctx.max("worst_shift_error_near_the_gv_fixed_point", worst);
        ctx.count("contours_compared_near_the_gv_fixed_point", 1.0);
        ctx.count("voiced_frames_checked", vals.len() as f64);
        if !(worst <= 1e-9) {
            ctx.violation(
                if worst <= NEAR_FIXED_POINT_BOUND { NEAR_FIXED_POINT_SIG } else { "f0-not-shifted-by-h-half-tones" },
                J::obj()
                    .set("voice", "bundled")
                    .set("h", h)
                    .set("gv_weight_of_log_f0", w)
                    .set("relative_distance_of_the_variance_target_from_the_ml_variance", delta)
                    .set("labels", J::Arr(to_strings(&labels).into_iter().take(3).map(J::Str).collect()))
                    .set("observed", J::obj().set("frame", at).set("lf0_at_0", r0.lf0[at][0]).set("lf0_at_h", rh.lf0[at][0]).set("expected_shift", h * HT).set("error", worst)),
            );
            return;
        }
        ctx.nontrivial(mix(&[0x9f, (h * 1000.0) as i64 as u64, hash_str(&to_strings(&labels).join("|"))]));
    });
    // generated voices (2 and 3 streams, different window sets)
    let n = ctx.n(200, 3000);
    ctx.run_cases("synthetic", n, false, |ctx, rng, idx| {
        let mut o = crate::voicegen::VoiceOpts::random(rng);
        o.stage = 0;
        match crate::mon::c01::load_synthetic(&env, &o, rng) {
            Ok((e, rv)) => one(ctx, &env, rng, &e, &rv, &format!("synthetic[{}]", o.describe()), idx + 2),
            Err(e) => ctx.inconclusive(&e),
        }
    });
}
