//! Minimal JSON value + writer (output only; inputs are regenerated from seeds).

use std::fmt::{self, Display, Write};

#[derive(Clone, Debug)]
pub enum J {
    Null,
    Bool(bool),
    Int(i64),
    Num(f64),
    Str(String),
    Arr(Vec<J>),
    Obj(Vec<(String, J)>),
}

impl J {
    pub fn obj() -> J {
        J::Obj(Vec::new())
    }
    pub fn set(mut self, k: &str, v: impl Into<J>) -> J {
        if let J::Obj(ref mut o) = self {
            o.push((k.to_string(), v.into()));
        }
        self
    }
    pub fn put(&mut self, k: &str, v: impl Into<J>) {
        if let J::Obj(ref mut o) = self {
            o.push((k.to_string(), v.into()));
        }
    }
}

impl From<bool> for J {
    fn from(v: bool) -> J {
        J::Bool(v)
    }
}
impl From<i64> for J {
    fn from(v: i64) -> J {
        J::Int(v)
    }
}
impl From<i32> for J {
    fn from(v: i32) -> J {
        J::Int(v as i64)
    }
}
impl From<u64> for J {
    fn from(v: u64) -> J {
        if v > i64::MAX as u64 {
            J::Str(format!("{}", v))
        } else {
            J::Int(v as i64)
        }
    }
}
impl From<usize> for J {
    fn from(v: usize) -> J {
        J::from(v as u64)
    }
}
impl From<f64> for J {
    fn from(v: f64) -> J {
        J::Num(v)
    }
}
impl From<&str> for J {
    fn from(v: &str) -> J {
        J::Str(v.to_string())
    }
}
impl From<String> for J {
    fn from(v: String) -> J {
        J::Str(v)
    }
}
impl From<&String> for J {
    fn from(v: &String) -> J {
        J::Str(v.clone())
    }
}
impl<T: Into<J>> From<Vec<T>> for J {
    fn from(v: Vec<T>) -> J {
        J::Arr(v.into_iter().map(Into::into).collect())
    }
}
impl<T: Into<J> + Clone> From<&[T]> for J {
    fn from(v: &[T]) -> J {
        J::Arr(v.iter().cloned().map(Into::into).collect())
    }
}
impl<T: Into<J>> From<Option<T>> for J {
    fn from(v: Option<T>) -> J {
        match v {
            Some(x) => x.into(),
            None => J::Null,
        }
    }
}

fn esc(s: &str, f: &mut fmt::Formatter<'_>) -> fmt::Result {
    f.write_char('"')?;
    for c in s.chars() {
        match c {
            '"' => f.write_str("\\\"")?,
            '\\' => f.write_str("\\\\")?,
            '\n' => f.write_str("\\n")?,
            '\r' => f.write_str("\\r")?,
            '\t' => f.write_str("\\t")?,
            c if (c as u32) < 0x20 => write!(f, "\\u{:04x}", c as u32)?,
            c => f.write_char(c)?,
        }
    }
    f.write_char('"')
}

impl Display for J {
    fn fmt(&self, f: &mut fmt::Formatter<'_>) -> fmt::Result {
        match self {
            J::Null => f.write_str("null"),
            J::Bool(b) => write!(f, "{}", b),
            J::Int(i) => write!(f, "{}", i),
            J::Num(x) => {
                if x.is_finite() {
                    // shortest round-trip representation
                    let s = format!("{:?}", x);
                    f.write_str(&s)
                } else {
                    // JSON has no NaN/Inf: encode as string
                    write!(f, "\"{}\"", x)
                }
            }
            J::Str(s) => esc(s, f),
            J::Arr(a) => {
                f.write_char('[')?;
                for (i, x) in a.iter().enumerate() {
                    if i > 0 {
                        f.write_char(',')?;
                    }
                    write!(f, "{}", x)?;
                }
                f.write_char(']')
            }
            J::Obj(o) => {
                f.write_char('{')?;
                for (i, (k, v)) in o.iter().enumerate() {
                    if i > 0 {
                        f.write_char(',')?;
                    }
                    esc(k, f)?;
                    f.write_char(':')?;
                    write!(f, "{}", v)?;
                }
                f.write_char('}')
            }
        }
    }
}

/// Truncate long float vectors for samples.
pub fn fvec(v: &[f64], max: usize) -> J {
    let mut a: Vec<J> = v.iter().take(max).map(|x| J::Num(*x)).collect();
    if v.len() > max {
        a.push(J::Str(format!("...({} total)", v.len())));
    }
    J::Arr(a)
}
