//! Small deterministic PRNG (splitmix64 / xorshift64*), no external crates.

#[derive(Clone, Debug)]
pub struct Rng(u64);

pub fn mix2(a: u64, b: u64) -> u64 {
    let mut z = a
        .wrapping_mul(0x9E37_79B9_7F4A_7C15)
        .wrapping_add(b)
        .wrapping_add(0x632B_E59B_D9B4_E019);
    z = (z ^ (z >> 30)).wrapping_mul(0xBF58_476D_1CE4_E5B9);
    z = (z ^ (z >> 27)).wrapping_mul(0x94D0_49BB_1331_11EB);
    z ^ (z >> 31)
}

pub fn mix(parts: &[u64]) -> u64 {
    let mut h = 0x1234_5678_9ABC_DEF1u64;
    for p in parts {
        h = mix2(h, *p);
    }
    h
}

pub fn hash_str(s: &str) -> u64 {
    let mut h: u64 = 0xcbf2_9ce4_8422_2325;
    for b in s.as_bytes() {
        h ^= *b as u64;
        h = h.wrapping_mul(0x0000_0100_0000_01b3);
    }
    h
}

pub fn hash_bytes(s: &[u8]) -> u64 {
    let mut h: u64 = 0xcbf2_9ce4_8422_2325;
    for b in s {
        h ^= *b as u64;
        h = h.wrapping_mul(0x0000_0100_0000_01b3);
    }
    h
}

/// FNV-1a over the bit patterns of a float slice (bit-identity hash).
pub fn hash_f64s(v: &[f64]) -> u64 {
    let mut h: u64 = 0xcbf2_9ce4_8422_2325;
    for x in v {
        for b in x.to_bits().to_le_bytes() {
            h ^= b as u64;
            h = h.wrapping_mul(0x0000_0100_0000_01b3);
        }
    }
    h ^ (v.len() as u64).wrapping_mul(0x9E37_79B9_7F4A_7C15)
}

impl Rng {
    pub fn new(seed: u64) -> Self {
        Rng(mix2(seed, 0xA5A5_A5A5))
    }
    pub fn next_u64(&mut self) -> u64 {
        self.0 = self.0.wrapping_add(0x9E37_79B9_7F4A_7C15);
        let mut z = self.0;
        z = (z ^ (z >> 30)).wrapping_mul(0xBF58_476D_1CE4_E5B9);
        z = (z ^ (z >> 27)).wrapping_mul(0x94D0_49BB_1331_11EB);
        z ^ (z >> 31)
    }
    pub fn fork(&mut self) -> Rng {
        Rng::new(self.next_u64())
    }
    /// uniform in [0,1)
    pub fn f64(&mut self) -> f64 {
        (self.next_u64() >> 11) as f64 / (1u64 << 53) as f64
    }
    pub fn uniform(&mut self, lo: f64, hi: f64) -> f64 {
        lo + (hi - lo) * self.f64()
    }
    pub fn log_uniform(&mut self, lo: f64, hi: f64) -> f64 {
        (self.uniform(lo.ln(), hi.ln())).exp()
    }
    /// integer in [lo, hi] inclusive
    pub fn range(&mut self, lo: usize, hi: usize) -> usize {
        debug_assert!(hi >= lo);
        lo + (self.next_u64() % ((hi - lo) as u64 + 1)) as usize
    }
    pub fn irange(&mut self, lo: i64, hi: i64) -> i64 {
        lo + (self.next_u64() % ((hi - lo) as u64 + 1)) as i64
    }
    pub fn below(&mut self, n: usize) -> usize {
        (self.next_u64() % n as u64) as usize
    }
    pub fn chance(&mut self, p: f64) -> bool {
        self.f64() < p
    }
    pub fn pick<'a, T>(&mut self, v: &'a [T]) -> &'a T {
        &v[self.below(v.len())]
    }
    pub fn normal(&mut self) -> f64 {
        // Box-Muller
        let u1 = 1.0 - self.f64();
        let u2 = self.f64();
        (-2.0 * u1.ln()).sqrt() * (2.0 * std::f64::consts::PI * u2).cos()
    }
    pub fn shuffle<T>(&mut self, v: &mut [T]) {
        for i in (1..v.len()).rev() {
            let j = self.below(i + 1);
            v.swap(i, j);
        }
    }
}
