//! The alignment law in exact integer arithmetic on the raw annotation (shared by C01, C09, C17).

use crate::json::J;

/// raw annotation of one label: optional start / end in 100 ns units
#[derive(Clone, Copy, Debug, PartialEq)]
pub struct Ann {
    pub start: Option<u64>,
    pub end: Option<u64>,
}

/// known end of each label (own end, else the next label's start), in 100 ns units
pub fn known_ends(ann: &[Ann]) -> Vec<Option<u64>> {
    (0..ann.len())
        .map(|i| ann[i].end.or_else(|| if i + 1 < ann.len() { ann[i + 1].start } else { None }))
        .collect()
}

/// round(e * rate / (fperiod * 1e7)) in exact integer arithmetic; (value, near a .5 tie)
pub fn frames_exact(e: u64, rate: usize, fperiod: usize) -> (u64, bool) {
    let num = e as u128 * rate as u128;
    let den = fperiod as u128 * 10_000_000u128;
    let q = num / den;
    let r = num % den;
    let frac = r as f64 / den as f64;
    let rounded = if 2 * r >= den { q + 1 } else { q };
    (rounded as u64, (frac - 0.5).abs() < 1e-9 * (1.0 + q as f64))
}

pub enum Verdict {
    Ok { groups_multi: usize, inherited: usize },
    Bad(String, J),
}

/// The alignment law on a duration vector. `trailing`: expected durations of the states after
/// the last known end (None = not checked).
pub fn check_law(dur: &[usize], ann: &[Ann], nstate: usize, rate: usize, fperiod: usize, trailing: Option<&[(usize, bool)]>) -> Verdict {
    let n = ann.len();
    if dur.len() != n * nstate {
        return Verdict::Bad("duration-count".into(), J::obj().set("len", dur.len()).set("expected", n * nstate));
    }
    if dur.iter().any(|d| *d == 0) {
        return Verdict::Bad("state-without-frame".into(), J::from(dur.to_vec()));
    }
    let ends = known_ends(ann);
    let mut c_prev = 0u64; // frames before the current group
    let mut group_start = 0usize; // first label of the current group
    let mut groups_multi = 0;
    let inherited = (0..n).filter(|i| ann[*i].end.is_none() && ends[*i].is_some()).count();
    for i in 0..n {
        if let Some(e) = ends[i] {
            let m = ((i + 1 - group_start) * nstate) as u64;
            let states = &dur[group_start * nstate..(i + 1) * nstate];
            let got: u64 = states.iter().map(|d| *d as u64).sum();
            let (target, tie) = frames_exact(e, rate, fperiod);
            let ok_for = |t: u64| -> bool {
                if t > c_prev && t - c_prev > m {
                    c_prev + got == t
                } else {
                    got == m && states.iter().all(|d| *d == 1)
                }
            };
            let ok = ok_for(target) || (tie && (ok_for(target + 1) || (target > 0 && ok_for(target - 1))));
            if !ok {
                return Verdict::Bad(
                    "frames-up-to-known-end".into(),
                    J::obj()
                        .set("label", i)
                        .set("group_first_label", group_start)
                        .set("end_100ns", e)
                        .set("target_cumulative_frames", target)
                        .set("frames_before_group", c_prev)
                        .set("group_states", m)
                        .set("group_frames", got)
                        .set("group_durations", J::from(states.to_vec())),
                );
            }
            if i + 1 - group_start >= 2 {
                groups_multi += 1;
            }
            c_prev += got;
            group_start = i + 1;
        }
    }
    // trailing labels after the last known end: model durations
    if group_start < n {
        if let Some(exp) = trailing {
            let states = &dur[group_start * nstate..];
            for (k, (d, (want, amb))) in states.iter().zip(exp).enumerate() {
                if d != want && !*amb {
                    return Verdict::Bad(
                        "trailing-labels-do-not-fall-back-to-model-durations".into(),
                        J::obj().set("first_trailing_label", group_start).set("state", k).set("got", *d).set("expected", *want),
                    );
                }
            }
        }
    }
    Verdict::Ok { groups_multi, inherited }
}

