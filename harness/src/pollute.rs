//! Other objects render on this thread before a case runs.
//!
//! Every property is about one engine / vocoder / estimator as a pure function of its inputs.
//! A monitor that runs thousands of cases in one process would never notice state that leaks
//! *between objects* (a thread-local scratch buffer, a process-wide cache) unless something
//! else has used that state in a different way first. One case in three is therefore preceded
//! by a short rendering on unrelated objects: the bundled voice with post-filter, pitch shift
//! and a non-default speed, and a line-spectral-pair vocoder whose spectrum moves.

use jbonsai::vocoder::Vocoder;
use jbonsai::Engine;
use std::path::Path;
use std::sync::OnceLock;

static BUNDLED: OnceLock<Option<Engine>> = OnceLock::new();

const LINES: [&str; 2] = [
    "xx^xx-sil+b=o/A:xx+xx+xx/B:xx-xx_xx/C:xx_xx+xx/D:xx+xx_xx/E:xx_xx!xx_xx-xx/F:xx_xx#xx_xx@xx_xx|xx_xx/G:4_4%0_xx_xx/H:xx_xx/I:xx-xx@xx+xx&xx-xx|xx+xx/J:1_4/K:1+1-4",
    "sil^b-o+N=s/A:-3+1+4/B:xx-xx_xx/C:02_xx+xx/D:xx+xx_xx/E:xx_xx!xx_xx-xx/F:4_4#0_xx@1_1|1_4/G:xx_xx%xx_xx_xx/H:xx_xx/I:1-4@1+1&1-1|1+4/J:xx_xx/K:1+1-4",
];

pub fn other_objects_render(repo: &Path, salt: u64) {
    if std::env::var("JBV_MIRI").is_ok() || std::env::var("JBV_NO_POLLUTION").is_ok() {
        return;
    }
    let _ = crate::ctx::guard(|| {
        let engine = BUNDLED.get_or_init(|| Engine::load(&[repo.join(crate::env::BUNDLED)]).ok());
        if let Some(e) = engine {
            let mut e = e.clone();
            e.condition.set_beta(0.2 + 0.1 * (salt % 3) as f64);
            e.condition.set_additional_half_tone(2.0 - (salt % 5) as f64);
            e.condition.set_speed(1.0 + 0.25 * (salt % 4) as f64);
            e.condition.set_volume(-3.0 * (salt % 2) as f64);
            let _ = e.synthesize(&LINES[..]);
        }
        // a line-spectral-pair vocoder (stage 2) and a mel-cepstral one, spectra moving
        let mut lsp = Vocoder::new(5, 0, 2, salt % 2 == 0, 16000, 0.42, 0.1, 1.0, 40);
        let mut mcp = Vocoder::new(6, 3, 0, false, 16000, 0.35, 0.3, 1.0, 40);
        let mut buf = vec![0.0; 40];
        for k in 0..3 {
            let d = 0.05 * k as f64;
            lsp.synthesize(5.0 + d, &[0.3 + d, 0.5 + d, 1.1 + d, 1.7 + d, 2.4 + d], &[], &mut buf);
            mcp.synthesize(if k == 1 { -1e10 } else { 4.8 }, &[0.2 + d, 0.3, -0.1 + d, 0.05, 0.02, -0.01], &[0.2, 0.5 + d, 0.2], &mut buf);
        }
    });
}
