//! Independent reference implementations used as oracles (share no code with jbonsai).

use std::f64::consts::PI;

/// HTS wildcard matching: '*' = any (possibly empty) sequence, '?' = exactly one character.
pub fn wildcard(pattern: &str, text: &str) -> bool {
    let p: Vec<char> = pattern.chars().collect();
    let t: Vec<char> = text.chars().collect();
    // classic iterative matcher with backtracking on the last '*'
    let (mut pi, mut ti) = (0usize, 0usize);
    let (mut star, mut mark) = (usize::MAX, 0usize);
    while ti < t.len() {
        if pi < p.len() && (p[pi] == '?' || p[pi] == t[ti]) && p[pi] != '*' {
            pi += 1;
            ti += 1;
        } else if pi < p.len() && p[pi] == '*' {
            star = pi;
            mark = ti;
            pi += 1;
        } else if star != usize::MAX {
            pi = star + 1;
            mark += 1;
            ti = mark;
        } else {
            return false;
        }
    }
    while pi < p.len() && p[pi] == '*' {
        pi += 1;
    }
    pi == p.len()
}

pub fn question_matches(patterns: &[String], text: &str) -> bool {
    patterns.iter().any(|p| wildcard(p, text))
}

/// Solve A x = b by Gaussian elimination with partial pivoting. Returns None if singular.
pub fn dense_solve(a: &[Vec<f64>], b: &[f64]) -> Option<Vec<f64>> {
    let n = b.len();
    let mut m: Vec<Vec<f64>> = a.iter().map(|r| r.clone()).collect();
    let mut x = b.to_vec();
    for col in 0..n {
        let mut piv = col;
        let mut best = m[col][col].abs();
        for r in col + 1..n {
            if m[r][col].abs() > best {
                best = m[r][col].abs();
                piv = r;
            }
        }
        if best == 0.0 || !best.is_finite() {
            return None;
        }
        m.swap(col, piv);
        x.swap(col, piv);
        for r in col + 1..n {
            let f = m[r][col] / m[col][col];
            if f != 0.0 {
                for c in col..n {
                    let v = m[col][c];
                    m[r][c] -= f * v;
                }
                x[r] -= f * x[col];
            }
        }
    }
    for col in (0..n).rev() {
        let mut s = x[col];
        for c in col + 1..n {
            s -= m[col][c] * x[c];
        }
        x[col] = s / m[col][col];
    }
    Some(x)
}

/// Least squares min ||M x - y|| through the normal equations (small, well conditioned uses only).
pub fn least_squares(m: &[Vec<f64>], y: &[f64]) -> Option<Vec<f64>> {
    let rows = m.len();
    let cols = m[0].len();
    let mut ata = vec![vec![0.0; cols]; cols];
    let mut aty = vec![0.0; cols];
    for r in 0..rows {
        for i in 0..cols {
            aty[i] += m[r][i] * y[r];
            for j in 0..cols {
                ata[i][j] += m[r][i] * m[r][j];
            }
        }
    }
    dense_solve(&ata, &aty)
}

/// all-pass warped frequency
pub fn warp(w: f64, alpha: f64) -> f64 {
    w + 2.0 * (alpha * w.sin()).atan2(1.0 - alpha * w.cos())
}

/// DTFT of a finite sequence at angular frequency w: returns (re, im)
pub fn dtft(x: &[f64], w: f64) -> (f64, f64) {
    // Goertzel-free direct evaluation with recurrence-free trig for accuracy
    let mut re = 0.0;
    let mut im = 0.0;
    // use rotation recurrence re-synchronised every 64 samples to limit drift
    let (cw, sw) = (w.cos(), w.sin());
    let mut c = 1.0;
    let mut s = 0.0;
    for (n, v) in x.iter().enumerate() {
        if n % 64 == 0 {
            c = (w * n as f64).cos();
            s = (w * n as f64).sin();
        }
        re += v * c;
        im -= v * s;
        let nc = c * cw - s * sw;
        let ns = s * cw + c * sw;
        c = nc;
        s = ns;
    }
    (re, im)
}

pub fn log_mag(x: &[f64], w: f64) -> f64 {
    let (re, im) = dtft(x, w);
    0.5 * (re * re + im * im).ln()
}

/// model log-spectrum of a mel-cepstrum: sum_m c_m cos(m * warp(w))
pub fn mcep_logspec(c: &[f64], alpha: f64, w: f64) -> f64 {
    let ww = warp(w, alpha);
    c.iter().enumerate().map(|(m, cm)| cm * (m as f64 * ww).cos()).sum()
}

/// Multiply polynomials (coefficients in ascending powers of z^-1).
pub fn poly_mul(a: &[f64], b: &[f64]) -> Vec<f64> {
    let mut r = vec![0.0; a.len() + b.len() - 1];
    for (i, x) in a.iter().enumerate() {
        for (j, y) in b.iter().enumerate() {
            r[i + j] += x * y;
        }
    }
    r
}

/// LPC polynomial A(z) = 1 + a1 z^-1 + ... + am z^-m from line spectral frequencies
/// w_1 < ... < w_m (radians), by multiplying out the symmetric / antisymmetric factors.
/// P(z) collects odd-indexed lsf (w1,w3,..), Q(z) even-indexed (w2,w4,..); A = (P+Q)/2.
pub fn lsp_to_lpc(w: &[f64]) -> Vec<f64> {
    let m = w.len();
    let mut p = vec![1.0];
    let mut q = vec![1.0];
    for (i, wi) in w.iter().enumerate() {
        let f = [1.0, -2.0 * wi.cos(), 1.0];
        if i % 2 == 0 {
            p = poly_mul(&p, &f);
        } else {
            q = poly_mul(&q, &f);
        }
    }
    if m % 2 == 0 {
        p = poly_mul(&p, &[1.0, 1.0]);
        q = poly_mul(&q, &[1.0, -1.0]);
    } else {
        q = poly_mul(&q, &[1.0, 0.0, -1.0]);
    }
    // both have degree m+1
    debug_assert_eq!(p.len(), m + 2);
    debug_assert_eq!(q.len(), m + 2);
    let mut a = vec![0.0; m + 1];
    for i in 0..=m {
        a[i] = 0.5 * (p[i] + q[i]);
    }
    a
}

/// |A(e^{jw})| for polynomial in z^-1
pub fn poly_mag(a: &[f64], w: f64) -> f64 {
    let mut re = 0.0;
    let mut im = 0.0;
    for (k, c) in a.iter().enumerate() {
        re += c * (w * k as f64).cos();
        im -= c * (w * k as f64).sin();
    }
    (re * re + im * im).sqrt()
}

pub fn round_half_away(x: f64) -> f64 {
    // f64::round semantics (half away from zero), written out independently
    if x >= 0.0 {
        (x + 0.5).floor()
    } else {
        -((-x + 0.5).floor())
    }
}

/// distance of x from the nearest .5 tie point
pub fn tie_distance(x: f64) -> f64 {
    let f = x - x.floor();
    (f - 0.5).abs()
}

pub const TWO_PI: f64 = 2.0 * PI;

#[cfg(test)]
mod tests {
    use super::*;
    #[test]
    fn wc() {
        assert!(wildcard("*-sil+*", "xx^xx-sil+b=o/A:xx"));
        assert!(!wildcard("*-sil+*", "xx^xx-pau+b=o/A:xx"));
        assert!(wildcard("*-1?", "K:1+1-14"));
        assert!(!wildcard("*-1?", "K:1+1-4"));
        assert!(wildcard("a*b*c", "aXbYbZc"));
        assert!(wildcard("*", ""));
        assert!(!wildcard("?", ""));
    }
    #[test]
    fn lsp() {
        // m=2: A(z) from w1,w2
        let a = lsp_to_lpc(&[0.5, 1.5]);
        assert_eq!(a.len(), 3);
        assert!((a[0] - 1.0).abs() < 1e-15);
    }
}
