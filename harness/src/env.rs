//! Shared environment of a shard: corpus, bundled voice, question pool, engine helpers, conditions.

use crate::ctx::Ctx;
use crate::json::J;
use crate::labels::Corpus;
use crate::rng::{hash_bytes, Rng};
use crate::voicegen::QuestionPool;
use crate::voiceread::{read_voice, RefVoice};
use jbonsai::Engine;
use std::path::{Path, PathBuf};

pub const BUNDLED: &str = "models/hts_voice_nitech_jp_atr503_m001-1.05/nitech_jp_atr503_m001.htsvoice";

pub struct Env {
    pub corpus: Corpus,
    pub bundled_path: PathBuf,
    pub bundled_bytes: Vec<u8>,
    pub bundled_ref: RefVoice,
    pub pool: QuestionPool,
    pub tmp_dir: PathBuf,
}

impl Env {
    pub fn new(ctx: &Ctx) -> Env {
        let corpus = Corpus::load(&ctx.repo);
        let bundled_path = ctx.repo.join(BUNDLED);
        let bundled_bytes = std::fs::read(&bundled_path).expect("bundled voice readable");
        let bundled_ref = read_voice(&bundled_bytes).expect("reference reader must read the bundled voice");
        let pool = QuestionPool::from_voice(&bundled_ref);
        let tmp_dir = tmp_base().join(format!("jbv-{}-{}-{}", ctx.prop, std::process::id(), ctx.shard));
        std::fs::create_dir_all(&tmp_dir).expect("tmp dir");
        Env { corpus, bundled_path, bundled_bytes, bundled_ref, pool, tmp_dir }
    }

    /// Write voice bytes to a file (content-addressed) and return its path.
    pub fn voice_file(&self, bytes: &[u8]) -> PathBuf {
        let p = self.tmp_dir.join(format!("v{:016x}.htsvoice", hash_bytes(bytes)));
        if !p.exists() {
            std::fs::write(&p, bytes).expect("write voice file");
        }
        p
    }
    pub fn remove(&self, p: &Path) {
        let _ = std::fs::remove_file(p);
    }
    pub fn load_bundled(&self) -> Engine {
        Engine::load(&[&self.bundled_path]).expect("bundled voice loads")
    }
}

impl Drop for Env {
    fn drop(&mut self) {
        let _ = std::fs::remove_dir_all(&self.tmp_dir);
    }
}

pub fn tmp_base() -> PathBuf {
    if let Ok(d) = std::env::var("JBV_TMP") {
        return PathBuf::from(d);
    }
    let shm = Path::new("/dev/shm");
    if shm.is_dir() {
        shm.to_path_buf()
    } else {
        std::env::temp_dir()
    }
}

/// A full condition (every knob of the C01 envelope). `None` = leave the engine default.
#[derive(Clone, Debug, Default)]
pub struct Cond {
    pub alpha: Option<f64>,
    pub beta: Option<f64>,
    pub gv_weight: Vec<Option<f64>>,
    pub msd_threshold: Vec<Option<f64>>,
    pub half_tone: Option<f64>,
    pub volume_db: Option<f64>,
    pub speed: Option<f64>,
    pub alignment: bool,
    pub fperiod: Option<usize>,
    pub rate: Option<usize>,
}

impl Cond {
    pub fn apply(&self, e: &mut Engine) {
        let c = &mut e.condition;
        if let Some(v) = self.rate {
            c.set_sampling_frequency(v);
        }
        if let Some(v) = self.fperiod {
            c.set_fperiod(v);
        }
        if let Some(v) = self.alpha {
            c.set_alpha(v);
        }
        if let Some(v) = self.beta {
            c.set_beta(v);
        }
        for (i, w) in self.gv_weight.iter().enumerate() {
            if let Some(w) = w {
                c.set_gv_weight(i, *w);
            }
        }
        for (i, w) in self.msd_threshold.iter().enumerate() {
            if let Some(w) = w {
                c.set_msd_threshold(i, *w);
            }
        }
        if let Some(v) = self.half_tone {
            c.set_additional_half_tone(v);
        }
        if let Some(v) = self.volume_db {
            c.set_volume(v);
        }
        if let Some(v) = self.speed {
            c.set_speed(v);
        }
        c.set_phoneme_alignment_flag(self.alignment);
    }

    /// random point of the C01 operating envelope (corners included)
    pub fn random(rng: &mut Rng, nstreams: usize, allow_alignment: bool) -> Cond {
        let corner = |rng: &mut Rng, lo: f64, hi: f64| -> f64 {
            match rng.below(6) {
                0 => lo,
                1 => hi,
                _ => rng.uniform(lo, hi),
            }
        };
        let opt = |rng: &mut Rng, p: f64, v: f64| if rng.chance(p) { Some(v) } else { None };
        let mut c = Cond::default();
        let v = corner(rng, 0.0, 0.8);
        c.alpha = opt(rng, 0.3, v);
        let v = corner(rng, 0.0, 0.8);
        c.beta = opt(rng, 0.3, v);
        for _ in 0..nstreams {
            let v = corner(rng, 0.0, 2.0);
            c.gv_weight.push(opt(rng, 0.4, v));
            let v = corner(rng, 0.0, 1.0);
            c.msd_threshold.push(opt(rng, 0.4, v));
        }
        let v = corner(rng, -24.0, 24.0);
        c.half_tone = opt(rng, 0.3, v);
        let v = corner(rng, -20.0, 20.0);
        c.volume_db = opt(rng, 0.3, v);
        let v = match rng.below(6) {
            0 => 0.25,
            1 => 4.0,
            2 => 1.0,
            _ => rng.log_uniform(0.25, 4.0),
        };
        c.speed = opt(rng, 0.5, v);
        c.alignment = allow_alignment && rng.chance(0.2);
        if rng.chance(0.2) {
            c.fperiod = Some(match rng.below(5) {
                0 => 1,
                1 => 480,
                _ => rng.range(1, 480),
            });
        }
        if rng.chance(0.2) {
            c.rate = Some(match rng.below(5) {
                0 => 8000,
                1 => 96000,
                _ => rng.range(8000, 96000),
            });
        }
        c
    }

    pub fn to_json(&self) -> J {
        let of = |v: &Option<f64>| -> J { (*v).into() };
        J::obj()
            .set("alpha", of(&self.alpha))
            .set("beta", of(&self.beta))
            .set("gv_weight", J::Arr(self.gv_weight.iter().map(of).collect()))
            .set("msd_threshold", J::Arr(self.msd_threshold.iter().map(of).collect()))
            .set("half_tone", of(&self.half_tone))
            .set("volume_db", of(&self.volume_db))
            .set("speed", of(&self.speed))
            .set("alignment", self.alignment)
            .set("fperiod", self.fperiod)
            .set("rate", self.rate)
    }
}

/// Engine over in-memory voices (the same construction Engine::load performs).
pub fn engine_from_voices(voices: Vec<std::sync::Arc<jbonsai::model::Voice>>) -> Result<Engine, String> {
    let vs = jbonsai::model::VoiceSet::new(voices).map_err(|e| format!("{}", e))?;
    let mut c = jbonsai::Condition::default();
    c.load_model(&vs).map_err(|e| format!("{}", e))?;
    Ok(Engine::new(vs, c))
}

/// dyadic weight vector (k_i / 64) summing exactly to 1; `wild` allows negative / > 1 components
pub fn dyadic_weights(rng: &mut Rng, n: usize, wild: bool) -> Vec<f64> {
    if n == 1 {
        return vec![1.0];
    }
    let mut k: Vec<i64> = vec![0; n];
    if wild && n >= 3 && rng.chance(0.3) {
        // one component exactly 1.0, the others cancel each other
        let one = rng.below(n);
        let mut rest = 0i64;
        let others: Vec<usize> = (0..n).filter(|i| *i != one).collect();
        for (j, i) in others.iter().enumerate() {
            if j + 1 == others.len() {
                k[*i] = -rest;
            } else {
                let mut v = rng.irange(-64, 64);
                if v == 0 {
                    v = 32;
                }
                k[*i] = v;
                rest += v;
            }
        }
        k[one] = 64;
        if k.iter().filter(|x| **x != 0).count() < 3 {
            // make sure the cancelling components are not zero
            k[others[0]] += 16;
            k[others[others.len() - 1]] -= 16;
        }
    } else if n >= 2 && rng.chance(0.2) {
        // one component exactly 0 (most often the first), the rest a composition of 64
        let zero = if rng.chance(0.6) { 0 } else { rng.below(n) };
        let others: Vec<usize> = (0..n).filter(|i| *i != zero).collect();
        for _ in 0..64 {
            let i = *rng.pick(&others);
            k[i] += 1;
        }
        if wild && others.len() >= 2 {
            k[others[0]] += 40;
            k[others[1]] -= 40;
        }
    } else if wild {
        let mut rest = 64i64;
        for item in k.iter_mut().take(n - 1) {
            let v = rng.irange(-64, 128);
            *item = v;
            rest -= v;
        }
        k[n - 1] = rest;
    } else {
        // random composition of 64 into n non-negative parts
        for _ in 0..64 {
            let i = rng.below(n);
            k[i] += 1;
        }
    }
    let mut w: Vec<f64> = k.iter().map(|x| *x as f64 / 64.0).collect();
    if rng.chance(0.15) {
        // a tiny but non-zero component (a power of two far below any "numerically zero"
        // threshold), taken from another component so that the sum stays exactly 1
        let i = if rng.chance(0.7) { 1 + rng.below(n - 1) } else { 0 };
        let j = (i + 1 + rng.below(n - 1)) % n;
        let t = (2.0f64).powi(-(*rng.pick(&[21i32, 24, 30, 40]))) * if wild && rng.chance(0.5) { -1.0 } else { 1.0 };
        if w[i] == 0.0 || rng.chance(0.5) {
            w[j] += w[i] - t;
            w[i] = t;
        } else {
            w[i] += t;
            w[j] -= t;
        }
    }
    w
}
