//! Label workloads: the real corpus, recombinations of its field values, structurally random labels.

use crate::rng::Rng;
use jlabel::*;
use std::collections::BTreeSet;
use std::path::Path;

pub struct Corpus {
    pub lines: Vec<String>,
    pub labels: Vec<Label>,
    // value pools per field group (as seen in the corpus)
    pub p: [Vec<Option<String>>; 5],
    pub a: Vec<Option<Mora>>,
    pub b: Vec<Option<Word>>,
    pub c: Vec<Option<Word>>,
    pub d: Vec<Option<Word>>,
    pub e: Vec<Option<AccentPhrasePrevNext>>,
    pub f: Vec<Option<AccentPhraseCurrent>>,
    pub g: Vec<Option<AccentPhrasePrevNext>>,
    pub h: Vec<Option<BreathGroupPrevNext>>,
    pub i: Vec<Option<BreathGroupCurrent>>,
    pub j: Vec<Option<BreathGroupPrevNext>>,
    pub k: Vec<Utterance>,
    /// utterance boundaries: indices of lines whose current phoneme is sil at the start
    pub utt_starts: Vec<usize>,
}

fn dedup<T: Clone + PartialEq>(it: impl Iterator<Item = T>) -> Vec<T> {
    let mut v: Vec<T> = Vec::new();
    for x in it {
        if !v.contains(&x) {
            v.push(x);
        }
    }
    v
}

impl Corpus {
    pub fn load(repo: &Path) -> Corpus {
        let path = repo.join("examples/genji/genji.lab");
        let text = std::fs::read_to_string(&path)
            .unwrap_or_else(|e| panic!("cannot read corpus {}: {}", path.display(), e));
        let lines: Vec<String> = text
            .lines()
            .map(|l| l.trim().to_string())
            .filter(|l| !l.is_empty())
            .collect();
        let labels: Vec<Label> = lines
            .iter()
            .map(|l| l.parse().expect("corpus line must parse"))
            .collect();
        let mut seen = BTreeSet::new();
        let mut utt_starts = Vec::new();
        for (i, l) in labels.iter().enumerate() {
            if matches!(l.phoneme.c.as_deref(), Some("sil") | Some("pau")) {
                utt_starts.push(i);
            }
            seen.insert(lines[i].clone());
        }
        Corpus {
            p: [
                dedup(labels.iter().map(|l| l.phoneme.p2.clone())),
                dedup(labels.iter().map(|l| l.phoneme.p1.clone())),
                dedup(labels.iter().map(|l| l.phoneme.c.clone())),
                dedup(labels.iter().map(|l| l.phoneme.n1.clone())),
                dedup(labels.iter().map(|l| l.phoneme.n2.clone())),
            ],
            a: dedup(labels.iter().map(|l| l.mora.clone())),
            b: dedup(labels.iter().map(|l| l.word_prev.clone())),
            c: dedup(labels.iter().map(|l| l.word_curr.clone())),
            d: dedup(labels.iter().map(|l| l.word_next.clone())),
            e: dedup(labels.iter().map(|l| l.accent_phrase_prev.clone())),
            f: dedup(labels.iter().map(|l| l.accent_phrase_curr.clone())),
            g: dedup(labels.iter().map(|l| l.accent_phrase_next.clone())),
            h: dedup(labels.iter().map(|l| l.breath_group_prev.clone())),
            i: dedup(labels.iter().map(|l| l.breath_group_curr.clone())),
            j: dedup(labels.iter().map(|l| l.breath_group_next.clone())),
            k: dedup(labels.iter().map(|l| l.utterance.clone())),
            utt_starts,
            lines,
            labels,
        }
    }

    /// Every field group drawn independently from the values the corpus exhibits; the
    /// result is canonicalised through to_string/parse so that it is exactly what parsing
    /// its text would give.
    pub fn recombine(&self, rng: &mut Rng) -> Label {
        let mut l = Label {
            phoneme: Phoneme {
                p2: rng.pick(&self.p[0]).clone(),
                p1: rng.pick(&self.p[1]).clone(),
                c: rng.pick(&self.p[2]).clone(),
                n1: rng.pick(&self.p[3]).clone(),
                n2: rng.pick(&self.p[4]).clone(),
            },
            mora: rng.pick(&self.a).clone(),
            word_prev: rng.pick(&self.b).clone(),
            word_curr: rng.pick(&self.c).clone(),
            word_next: rng.pick(&self.d).clone(),
            accent_phrase_prev: rng.pick(&self.e).clone(),
            accent_phrase_curr: rng.pick(&self.f).clone(),
            accent_phrase_next: rng.pick(&self.g).clone(),
            breath_group_prev: rng.pick(&self.h).clone(),
            breath_group_curr: rng.pick(&self.i).clone(),
            breath_group_next: rng.pick(&self.j).clone(),
            utterance: rng.pick(&self.k).clone(),
        };
        // finer recombination inside groups, sometimes
        if rng.chance(0.4) {
            if let (Some(m), Some(Some(o))) = (l.mora.as_mut(), Some(rng.pick(&self.a).clone())) {
                m.position_forward = o.position_forward;
            }
            if let (Some(fc), Some(o)) = (l.accent_phrase_curr.as_mut(), rng.pick(&self.f).clone()) {
                fc.mora_count = o.mora_count;
                fc.mora_position_backward = o.mora_position_backward;
            }
            if let (Some(ic), Some(o)) = (l.breath_group_curr.as_mut(), rng.pick(&self.i).clone()) {
                ic.mora_count = o.mora_count;
                ic.accent_phrase_position_forward = o.accent_phrase_position_forward;
            }
            let o = rng.pick(&self.k).clone();
            l.utterance.mora_count = o.mora_count;
        }
        canonical(l)
    }

    /// An utterance of n labels: 0 = consecutive corpus window, 1 = shuffled corpus lines,
    /// 2 = recombined, 3 = mixture.
    pub fn utterance(&self, rng: &mut Rng, n: usize, mode: usize) -> Vec<Label> {
        match mode {
            0 => {
                let n = n.min(self.labels.len());
                let start = rng.below(self.labels.len() - n + 1);
                self.labels[start..start + n].to_vec()
            }
            1 => (0..n).map(|_| rng.pick(&self.labels).clone()).collect(),
            2 => (0..n).map(|_| self.recombine(rng)).collect(),
            _ => (0..n)
                .map(|_| {
                    if rng.chance(0.5) {
                        rng.pick(&self.labels).clone()
                    } else {
                        self.recombine(rng)
                    }
                })
                .collect(),
        }
    }

    /// A natural utterance: one breath group of the corpus, from a silence/pause to the
    /// next one (both included).
    pub fn sentence(&self, rng: &mut Rng, max_labels: usize) -> Vec<Label> {
        let k = rng.below(self.utt_starts.len());
        let start = self.utt_starts[k];
        let mut end = if k + 1 < self.utt_starts.len() {
            self.utt_starts[k + 1] + 1
        } else {
            self.labels.len()
        };
        if end - start > max_labels {
            end = start + max_labels;
        }
        self.labels[start..end].to_vec()
    }

    pub fn random_utterance(&self, rng: &mut Rng, lo: usize, hi: usize) -> Vec<Label> {
        let n = rng.range(lo, hi);
        let mode = rng.below(4);
        self.utterance(rng, n, mode)
    }

    pub fn silence_label(&self, rng: &mut Rng) -> Label {
        let sil: Vec<&Label> = self
            .labels
            .iter()
            .filter(|l| matches!(l.phoneme.c.as_deref(), Some("sil") | Some("pau")))
            .collect();
        (*rng.pick(&sil)).clone()
    }
}

pub fn canonical(l: Label) -> Label {
    let s = l.to_string();
    match s.parse::<Label>() {
        Ok(p) => p,
        Err(_) => l,
    }
}

pub fn to_strings(labels: &[Label]) -> Vec<String> {
    labels.iter().map(|l| l.to_string()).collect()
}

fn rand_phone(rng: &mut Rng) -> Option<String> {
    const PH: [&str; 14] = [
        "a", "i", "u", "e", "o", "k", "sh", "N", "cl", "pau", "sil", "ty", "zz", "A",
    ];
    if rng.chance(0.15) {
        None
    } else if rng.chance(0.1) {
        // odd phoneme string (still made of characters the serializer emits verbatim)
        let n = rng.range(1, 4);
        Some((0..n).map(|_| (b'a' + rng.below(26) as u8) as char).collect())
    } else {
        Some(rng.pick(&PH).to_string())
    }
}

fn ou8(rng: &mut Rng) -> Option<u8> {
    if rng.chance(0.3) {
        None
    } else {
        Some(rng.next_u64() as u8)
    }
}
fn u8v(rng: &mut Rng) -> u8 {
    match rng.below(4) {
        0 => 0,
        1 => 255,
        2 => rng.range(1, 49) as u8,
        _ => rng.next_u64() as u8,
    }
}

/// Structurally random label (arbitrary u8/i8 values, None/Some mixes) — for the no-panic
/// part of C01/C17 only.
pub fn random_label(rng: &mut Rng) -> Label {
    let word = |rng: &mut Rng| {
        if rng.chance(0.3) {
            None
        } else {
            Some(Word { pos: ou8(rng), ctype: ou8(rng), cform: ou8(rng) })
        }
    };
    let apn = |rng: &mut Rng| {
        if rng.chance(0.3) {
            None
        } else {
            Some(AccentPhrasePrevNext {
                mora_count: u8v(rng),
                accent_position: u8v(rng),
                is_interrogative: rng.chance(0.5),
                is_pause_insertion: if rng.chance(0.3) { None } else { Some(rng.chance(0.5)) },
            })
        }
    };
    let bgn = |rng: &mut Rng| {
        if rng.chance(0.3) {
            None
        } else {
            Some(BreathGroupPrevNext { accent_phrase_count: u8v(rng), mora_count: u8v(rng) })
        }
    };
    Label {
        phoneme: Phoneme {
            p2: rand_phone(rng),
            p1: rand_phone(rng),
            c: rand_phone(rng),
            n1: rand_phone(rng),
            n2: rand_phone(rng),
        },
        mora: if rng.chance(0.3) {
            None
        } else {
            Some(Mora {
                relative_accent_position: rng.next_u64() as i8,
                position_forward: u8v(rng),
                position_backward: u8v(rng),
            })
        },
        word_prev: word(rng),
        word_curr: word(rng),
        word_next: word(rng),
        accent_phrase_prev: apn(rng),
        accent_phrase_curr: if rng.chance(0.3) {
            None
        } else {
            Some(AccentPhraseCurrent {
                mora_count: u8v(rng),
                accent_position: u8v(rng),
                is_interrogative: rng.chance(0.5),
                accent_phrase_position_forward: u8v(rng),
                accent_phrase_position_backward: u8v(rng),
                mora_position_forward: u8v(rng),
                mora_position_backward: u8v(rng),
            })
        },
        accent_phrase_next: apn(rng),
        breath_group_prev: bgn(rng),
        breath_group_curr: if rng.chance(0.3) {
            None
        } else {
            Some(BreathGroupCurrent {
                accent_phrase_count: u8v(rng),
                mora_count: u8v(rng),
                breath_group_position_forward: u8v(rng),
                breath_group_position_backward: u8v(rng),
                accent_phrase_position_forward: u8v(rng),
                accent_phrase_position_backward: u8v(rng),
                mora_position_forward: u8v(rng),
                mora_position_backward: u8v(rng),
            })
        },
        breath_group_next: bgn(rng),
        utterance: Utterance {
            breath_group_count: u8v(rng),
            accent_phrase_count: u8v(rng),
            mora_count: u8v(rng),
        },
    }
}
